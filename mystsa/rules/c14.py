"""C14 - warnings: closed typed catalogue; suppression has no side effects."""

from __future__ import annotations

import ast

from ..callgraph import get_callgraph
from ..corpus import (
    Corpus,
    FunctionInfo,
    ancestors,
    arg_or_kw,
    calls_in,
    dotted,
    is_const,
    kwarg,
    parent,
    short,
    splice,
    stmt_key,
    unparse,
    walk_local,
)
from ..flow import facts as flow_facts, get_cfg
from ..mutant import Mutant
from ..report import Report
from .common import find_node, rule

PROP = "C14"
READY = True
TECHNIQUE = "call-site rules over the AST with backwards tracing of the subtype argument through wrappers, callbacks and dataclass fields; branch-fact (dominator) classification of every exit of the suppression matcher"

META = {
    "explanation": (
        "R1: every MyST-typed warning emission in the package (create_warning function and renderer method, log_warning, Sphinx-logger "
        "calls with type=) is enumerated from the syntax tree and its subtype argument is traced backwards - through the renderer "
        "wrapper and other wrappers (incl. parameter defaults), the `warning` callbacks handed to merge_file_level, the "
        "ParseWarnings.type field (default and every constructor call), conditional expressions, module-level constants - to a "
        "MystWarnings member that exists in the enum, or to a literal pair in the closed non-myst set {(ref, footnote)}; logger calls "
        "must pass the member's .value under type 'myst'. "
        "R2: warning-level emissions without a tag (reporter.warning, logger.warning without type=) are a closed, reasoned list of "
        "functions, closed under 'helper whose every call site is in the list' (code may be moved into private helpers). "
        "R3: no catalogue member loses its last typed site. "
        "R4: (a,b) _is_suppressed_warning (found by name, or by role if renamed) is called, and suppress_warnings / myst_suppress_warnings "
        "is read (attribute, getattr / .get / subscript with that name), only by "
        "create_warning, by helpers whose every call site is create_warning (transitively; indirect calls through a local alias or a "
        "literal dispatch table are resolved), and by the tabled MathJax notice. (c) create_warning and the 'emitter' helpers it "
        "delegates to are analysed as units: every path to a node builder (reporter.warning, system_message, _create_warning_node, "
        "append; builders inside helpers are followed) passes the not-suppressed edge of a suppression test, or a not-None test of "
        "an emitter's result; the suppressed branch returns None without effects; the test is asked about the emitted tag strings in "
        "(type, subtype) order - wtype with default 'myst' and the subtype's str/.value, followed through locals, helper parameters, "
        "tuple/NamedTuple records and hoisted constants; a fixed string is a violation; the optional parent is attached under a None test of append_to, not a truth-value test (an "
        "empty docutils element is falsy). (d) in the matcher, the branch facts that "
        "dominate each exit are classified: the scan (for loop or `return any(...)`) visits the whole list, no negative or computed "
        "answer and no break leaves it under a condition on the current entry, every positive answer is dominated by `type part == "
        "type` (equality: a prefix / suffix / substring comparison is a violation) and a sub-target test, the union of the positive answers accepts exactly bare type / type.subtype / type.*, the two "
        "parts come from split('.', 1) guarded by `'.' in entry` resp. from (entry, None), or from entry.partition('.') (whose bare "
        "sentinel is '', and whose separator item is the dot test), or the whole entry is compared with the spelled-out forms type / "
        "f'{type}.{subtype}' / f'{type}.*'; a disjunctive condition is a case split whose alternatives are judged one by one; "
        "`next((True for e in L if ...), False)` counts as the scan like any(); without a scan, look-ups of the spelled-out forms "
        "in the whole list (`type in S or f'{type}.{subtype}' in S or f'{type}.*' in S`, S the list or a set of it) are judged the "
        "same way: the forms looked up must be exactly the three; conditional expressions are branches and split / predicate helpers are followed with parameters substituted. "
        "R5: the value returned by create_warning (None when suppressed) is only discarded, returned by a wrapper whose call sites "
        "are judged, or put into a node list under a presence test (`[x] if x else []`, `if x: out.append(x)`, `x or []`, or a helper "
        "doing that with its parameter); a branch with other statements, an unguarded list placement (None among the nodes) and "
        "`replace(old, x)` (another node's removal depends on it, unless the other branch removes it) are violations; so is a "
        "condition on the children (`X.children`, `len(X)`, truth value) of the node X given as append_to= that can be reached after "
        "the call before X is rebound or unconditionally extended - its outcome depends on whether the message node was appended. "
        "R6: the Sphinx log record's type=/subtype= and the '<message> [type.subtype]' text of every message node are built from "
        "the same two tag strings (text built by a helper is followed), and the renderer wrapper forwards each argument to the "
        "parameter of the same name. "
        "R7: the documented catalogue - the myst-warnings directive - renders 'myst.' + a string that is evaluated, as a function of "
        "each enum member's (name, value) read from the enum's syntax tree, through comprehensions over MystWarnings / __members__ / "
        "ModuleAnalyzer.attr_docs (tabled: keyed by (class qualname, attribute NAME)) and str transforms; it must equal the member's "
        "value, the tag that is emitted. "
        "R8: warning nodes are not content. Renderers attach the system_message next to the offending element, so containers of "
        "rendered content may hold such nodes exactly when the warning is not suppressed. (a) every `.astext()` call in the "
        "package either runs after the function removed the system_message descendants of that node (clean_astext), or only feeds "
        "the rawsource of a newly built node, or only words a warning message (followed through the returning helper's call "
        "sites), or reads a footnote label / a math leaf; (b) nodes handed to a library function that names its object by their text "
        "(tabled: sphinx make_glossary_term) have the message nodes taken out first; (c) in functions that hold the document root "
        "(or a cursor below it) or the container of a nested parse, a child list that is counted, unpacked, classified by "
        "all/any(isinstance...) or indexed-and-classified is filtered for system_message (or names it in the classification); "
        "(d) nothing reachable from _render_finalise appends a message node to the document root (docutils promotes a lone section "
        "to the document title only if it is the root's sole child); (e) because docutils' DocTitle sets document['title'] = "
        "document[0].astext() (re-read from the installed docutils), the docutils front end's get_transforms lists a transform "
        "that runs after DocTitle and stores the title text of a copy without system_message nodes. Two shapes are decided as "
        "suppression-invariant: an astext() that is only compared (==/!=) with document['title'] of the same root whose first "
        "child it reads (both sides carry the same text in either run), and a len(X) that is only the emptiness guard of "
        "isinstance(X[k], <non-message classes>) in the same `and` (message nodes alone fail the class test as the empty list "
        "fails the guard). Class tests may be written through a shared one-argument class predicate (`lambda n: [not] isinstance(n, K)`, "
        "a helper defined that way, also in another module; as findall condition, filter() argument, comprehension condition or "
        "inside all/any), and a pick by next(...) over a child list counts like a subscript; the parent of any node (`p = x.parent`) is "
        "such a container too, and a stretch of a child list (`p.children[:i]`) is judged like the list. A shared detaching helper "
        "(`detach(node)`: removes every system_message found below its parameter on every path, usually returning them) called on a "
        "node counts as the removal loop wherever R8/R9 ask for one, also when reached through an untyped attribute "
        "(`self._renderer._detach(x)`) if every function of that name is such a helper. "
        "R9: elements that docutils / Sphinx read as text before system messages are filtered are handed on without message nodes. "
        "Every `with <renderer>.current_node_context(X): render_children / nested_render_text` whose X is built as a title, caption, "
        "rubric, term or field_name (tabled with the collector that reads each), a paragraph that becomes a field_body "
        "(bibliographic front matter: docutils DocInfo, Sphinx MetadataCollector), or a container whose `.children` are returned "
        "(the text nodes of state.inline_text) must be followed on EVERY path to the function's exit by a loop that removes the "
        "system_message descendants found below X (findall/traverse of the subtree, not only direct children) - or every caller "
        "does so on the returned container, or by a call of a sweeping helper (`for E in findall(p)(C): for m in findall(E)(system_message): "
        "m.parent.remove(m)`, both walks subtree walks) that is given X, or an ancestor X is attached under in that function, together "
        "with X's class; branches on one once-assigned flag are taken consistently when paths are enumerated; when X is built in a helper "
        "that attaches it to the caller's current node and discharges only some cases of a flag it receives as a parameter, every "
        "caller must sweep the node that was current at the call (or an ancestor) in the remaining cases, with the flag translated "
        "through the call's arguments; and run_directive clears the captions AND titles below the nodes a directive returns. "
        "Keys name the module and the kind of element, not the function, so that moving the code into a helper keeps the key. "
        "R10: the tag a call site declares is the tag that is emitted. Every function or lambda (incl. the `warning` callbacks both "
        "parsers hand to merge_file_level) that is handed a MystWarnings member in some parameter at a call site uses that parameter "
        "as the subtype of an emission (through .value, conditional expressions, once-assigned locals, or a helper it passes it to); "
        "a wrapper that ignores the parameter and emits under fixed members is accepted only if that fixed tag equals every member "
        "declared at its call sites - otherwise the warning leaves under another tag than the one its call site (and the other front "
        "end's callback) names. Functions that receive members but emit nothing are listed, not judged. "
        "R5/R6 addendum: when the renderer wrapper stands a node of its own in for a missing parent (`append_to=self.X if append_to is "
        "None else append_to`), R6 accepts the forwarding and R5 judges every wrapper call without append_to as append_to=<receiver>.X."
    ),
    "not_decided": (
        "which further element classes third-party collectors read as text (R9's table lists those docutils and Sphinx itself read: "
        "title, caption, rubric, term, field_name, bibliographic field body, inline_text nodes); where the moved-out message nodes "
        "are placed afterwards; "
        "consumers of rendered content outside the shapes of R8 (e.g. a third-party transform that reads astext() of a title, a "
        "Sphinx builder that counts children) and docutils' own transforms other than the DocTitle fact tabled in R8d; "
        "whether a catalogue member without any emission site (DIRECTIVE_BODY, listed by R3) should be documented at all; "
        "per-document equality of the outputs under different suppress lists (needs the documents); Sphinx's own logger-side "
        "suppression filter; how often a call site runs (a warning emitted once per group instead of once per item, or skipped "
        "because of a cross-parse cache - state that outlives a parse is C15's subject); idioms outside "
        "the modelled subset answer ANALYSIS-ERROR (str.partition, flag-and-break scans, results passed to unresolvable callees)"
    ),
    "trusted_base": ["CPython ast", "mystsa call graph plus the alias/dispatch-table resolution in this module", "mystsa.flow dominators (branch facts)"],
    "assumptions": [
        "Sphinx's logging filter removes a suppressed record before it is emitted (sphinx.util.logging.WarningSuppressor)",
        "create_warning and its private helpers are the only callers of the suppression matcher (checked, R4a) and never pass None for type/subtype, so None tests of these parameters are unobservable",
        "names tested by a dominating branch are not reassigned between the test and the exit it guards",
        "docutils Reporter.warning and nodes.system_message always return a node, so an emitter helper returns None exactly on its suppressed branch",
        "sphinx.pycode.ModuleAnalyzer.attr_docs maps (class qualname, attribute name) to the doc-comment lines (used only by R7 when the directive iterates it)",
        "sphinx.domains.std.make_glossary_term names the term (id, std:term object, index entry) by the astext() of the nodes it is given (R8b)",
        "docutils.transforms.frontmatter.DocTitle promotes a section only if, leading PreBibliographic nodes (which include system_message) aside, it is the root's only child (R8d)",
        "no writer renders the rawsource of an inline node (R8a rawsource discharge); docutils uses a reference's rawsource for the problematic node of an unresolved reference",
        "Sphinx's std domain (process_doc, get_numfig_title), TitleCollector / toctree and docutils' DocInfo read title, caption, rubric, term, field_name and bibliographic field bodies with astext()/clean_astext(), which keep system_message text, before FilterSystemMessages runs (R9 table)",
        "a suppress entry with a trailing dot ('type.') is outside the three documented forms (str.partition and split('.', 1) treat it differently)",
    ],
}

# Warning-level emissions that bypass create_warning; closed list, one reason each.
UNTYPED_OK = {
    "myst_parser.warnings_:create_warning": "the typed emission itself (docutils branch: message already carries [type.subtype]; Sphinx branch passes type=/subtype=)",
    "myst_parser.mdit_to_docutils.base:DocutilsRenderer.create_highlighted_code_block": "pygments LexerError text, mirrors docutils' own code directive (not a MyST catalogue warning)",
    "myst_parser.parsers.docutils_:Parser.parse": "'Raw content disabled.' mirrors docutils' raw-role message",
    "myst_parser.parsers.sphinx_:MystParser.parse": "'Raw content disabled.' - the same raw filter as the docutils front end (mirrors docutils' raw-role message)",
    "myst_parser._docs:DirectiveDoc.run": "documentation build helper, not reachable from setup()",
}
NON_MYST_PAIRS = {("ref", "footnote")}
DEAD_MEMBERS = {"DIRECTIVE_BODY": "declared but never emitted on the pinned tree"}


def enum_members(corpus: Corpus) -> dict[str, str]:
    ci = corpus.cls("warnings_:MystWarnings")
    out = {}
    for st in ci.node.body:
        if isinstance(st, ast.Assign) and isinstance(st.targets[0], ast.Name) and isinstance(st.value, ast.Constant):
            out[st.targets[0].id] = st.value.value
    if len(out) < 10:
        raise Exception("MystWarnings enum not understood")
    return out


_CORPUS: list = [None]  # the corpus being analysed (set by _emissions; lets _lit follow an imported constant)


def _lit(e: ast.expr | None, fi: FunctionInfo, _depth: int = 0) -> ast.expr | None:
    """Follow a name to the literal it is bound to: a module-level constant, or a function-local name that is
    assigned once to a literal (hoisted constants).  Anything else is returned unchanged."""
    if not isinstance(e, ast.Name) or _depth > 4:
        return e
    f: FunctionInfo | None = fi
    while f is not None:
        if e.id in f.params:
            return e
        stores = [n for n in (f.local_nodes() if not f.is_lambda else []) if isinstance(n, ast.Name) and n.id == e.id and isinstance(n.ctx, ast.Store)]
        if stores:
            if len(stores) != 1:
                return e
            p = parent(stores[0])
            if isinstance(p, ast.Assign) and len(p.targets) == 1 and p.targets[0] is stores[0] and _is_literal(p.value):
                return p.value
            return e
        f = f.parent_func
    d = fi.module.const_nodes.get(e.id)
    if d is None and e.id in fi.module.imports and _CORPUS[0] is not None:
        mod, _, name = fi.module.imports[e.id].rpartition(".")  # a constant moved to / imported from another module
        mm = _CORPUS[0].modules.get(mod)
        d = mm.const_nodes.get(name) if mm is not None else None
        if d is not None and not _is_literal(d):
            d = None
    if d is not None and (_is_literal(d) or isinstance(d, ast.Name)):
        return _lit(d, fi, _depth + 1) if isinstance(d, ast.Name) else d
    return e


def _is_literal(e: ast.expr) -> bool:
    if isinstance(e, ast.Constant):
        return True
    if isinstance(e, (ast.Tuple, ast.List, ast.Set)):
        return all(isinstance(x, (ast.Constant, ast.Name)) for x in e.elts)
    if isinstance(e, ast.Call) and dotted(e.func) == "frozenset" and len(e.args) == 1:
        return _is_literal(e.args[0])
    return False


def _alias_targets(corpus: Corpus, call: ast.Call, fi: FunctionInfo) -> list[FunctionInfo]:
    """Indirect calls that still name their targets: ``emit = f if c else g; emit(...)``, a dispatch table
    ``{k: f, ...}[key](...)`` / ``TABLE[key](...)`` / ``TABLE.get(key, f)(...)`` (literal dict, local or module level)."""
    if fi.is_lambda:
        return []
    out: list[FunctionInfo] = []

    def bound_value(nm: str) -> ast.expr | None:
        if nm in fi.params:
            return None
        stores = [n for n in fi.local_nodes() if isinstance(n, ast.Name) and n.id == nm and isinstance(n.ctx, ast.Store)]
        if stores:
            p = parent(stores[0])
            if len(stores) == 1 and isinstance(p, ast.Assign) and len(p.targets) == 1 and p.targets[0] is stores[0]:
                return p.value
            return None
        return fi.module.const_nodes.get(nm)

    def function(d: str) -> FunctionInfo | None:
        if d in fi.module.functions:
            return fi.module.functions[d]
        full = fi.module.resolve(d)
        if "." in full:
            mod, _, name = full.rpartition(".")
            mm = corpus.modules.get(mod)
            if mm is not None:
                return mm.functions.get(name)
        return None

    def collect(v: ast.expr | None, depth: int = 0) -> bool:
        if v is None or depth > 4:
            return False
        if isinstance(v, ast.IfExp):
            return collect(v.body, depth + 1) and collect(v.orelse, depth + 1)
        if isinstance(v, ast.Dict):
            return bool(v.values) and all(collect(x, depth + 1) for x in v.values)
        if isinstance(v, ast.Subscript):
            return collect(v.value, depth + 1)
        if isinstance(v, ast.Call) and isinstance(v.func, ast.Attribute) and v.func.attr == "get" and 1 <= len(v.args) <= 2:
            return collect(v.func.value, depth + 1) and (len(v.args) == 1 or collect(v.args[1], depth + 1))
        d = dotted(v)
        if d is None:
            return False
        f = function(d)
        if f is not None:
            out.append(f)
            return True
        if isinstance(v, ast.Name):
            return collect(bound_value(v.id), depth + 1)
        return False

    f0 = call.func
    if isinstance(f0, ast.Name):
        if function(f0.id) is not None and bound_value(f0.id) is None:
            return []  # a direct call: the call graph's business
        ok = collect(bound_value(f0.id))
    elif isinstance(f0, (ast.Subscript, ast.Call)):
        ok = collect(f0)
    else:
        ok = False
    seen: set[str] = set()
    uniq = [h for h in out if not (h.fq in seen or seen.add(h.fq))]
    return uniq if ok else []


def _resolver_of(corpus: Corpus):
    def make():
        g = get_callgraph(corpus)

        def resolve(call: ast.Call, fi: FunctionInfo) -> list[FunctionInfo]:
            out = [x for x in g.flat_targets(g.resolve_call(call, fi)) if isinstance(x, FunctionInfo)]
            return out or _alias_targets(corpus, call, fi)

        return resolve

    return corpus.cache("c14-resolver", make)


def _callers(corpus: Corpus) -> dict[str, list[tuple[FunctionInfo, ast.Call]]]:
    """Call graph callers, plus calls through a local name bound to a function."""

    def make():
        g = get_callgraph(corpus)
        out = {k: list(v) for k, v in g.callers().items()}
        for fi in corpus.all_functions():
            if fi.is_lambda:
                continue
            local_stores = {n.id for n in fi.local_nodes() if isinstance(n, ast.Name) and isinstance(n.ctx, ast.Store)}
            for c in fi.local_nodes():
                if isinstance(c, ast.Call) and ((isinstance(c.func, ast.Name) and c.func.id in local_stores) or isinstance(c.func, ast.Subscript) or (isinstance(c.func, ast.Call) and isinstance(c.func.func, ast.Attribute) and c.func.func.attr == "get")):
                    for h in _alias_targets(corpus, c, fi):
                        if not any(x is c for _, x in out.get(h.fq, [])):
                            out.setdefault(h.fq, []).append((fi, c))
        return out

    return corpus.cache("c14-callers", make)


def _only_called_from(corpus: Corpus, roots: dict[str, str], module=None) -> dict[str, str]:
    """Close ``roots`` (fq -> reason) under "every call site is in the set": helpers that were split off."""
    callers = _callers(corpus)
    conf = dict(roots)
    changed = True
    while changed:
        changed = False
        for f in (module.functions.values() if module is not None else corpus.all_functions()):
            if f.fq in conf or f.is_lambda:
                continue
            cs = callers.get(f.fq, [])
            owners = set()
            for c, _ in cs:
                o = c
                while o.parent_func is not None and o.fq not in conf:
                    o = o.parent_func
                owners.add(o.fq)
            if cs and all(o in conf for o in owners):
                why = sorted({conf[o] for o in owners})
                conf[f.fq] = "helper only called from there: " + why[0]
                changed = True
    return conf


class Emissions:
    """All typed emission call sites and where their subtype comes from."""

    def __init__(self, corpus: Corpus):
        self.c = corpus
        self.g = get_callgraph(corpus)
        self.members = enum_members(corpus)
        self.cw_func = corpus.func("warnings_:create_warning")
        self.cw_meth = corpus.func("mdit_to_docutils.base:DocutilsRenderer.create_warning")
        self.log_warning = corpus.func("sphinx_ext.myst_refs:MystReferenceResolver.log_warning")
        self.sites: list[tuple[FunctionInfo, ast.Call, str]] = []  # (function, call, kind)
        callers = _callers(corpus)
        self.cw_private = _only_called_from(corpus, {self.cw_func.fq: "create_warning"}, self.cw_func.module)
        for kind, target in (("create_warning()", self.cw_func), ("renderer.create_warning()", self.cw_meth), ("log_warning()", self.log_warning)):
            for fi, call in callers.get(target.fq, []):
                self.sites.append((fi, call, kind))
        # logger.warning(..., type=...)
        for fi in corpus.all_functions():
            for call in (calls_in(fi.node, into_lambdas=False) if not fi.is_lambda else calls_in(fi.node.body)):
                if isinstance(call.func, ast.Attribute) and call.func.attr == "warning" and kwarg(call, "type") is not None:
                    if fi.fq in self.cw_private:
                        continue  # the implementation itself (or a helper split off it): its kwargs are checked by R6
                    self.sites.append((fi, call, "logger.warning(type=)"))

    def subtype_arg(self, call: ast.Call, kind: str) -> ast.expr | None:
        if kind == "create_warning()":
            return arg_or_kw(call, 2, "subtype")
        if kind == "renderer.create_warning()":
            return arg_or_kw(call, 1, "subtype")
        if kind == "log_warning()":
            return arg_or_kw(call, 2, "subtype")
        return kwarg(call, "subtype")

    def wtype_arg(self, call: ast.Call, kind: str) -> ast.expr | None:
        if kind == "logger.warning(type=)":
            return kwarg(call, "type")
        return kwarg(call, "wtype")

    def resolve(self, e: ast.expr | None, fi: FunctionInfo, depth: int = 0) -> list[tuple[str, str]]:
        """[(status, detail)]: status member:<NAME> | literal:<str> | bad:<why>."""
        if e is None:
            return [("bad", "no subtype argument")]
        if depth > 6:
            return [("bad", "wrapper chain too deep")]
        if isinstance(e, ast.Constant) and isinstance(e.value, str):
            return [("literal", e.value)]
        d = dotted(e)
        if isinstance(e, ast.Attribute) and e.attr == "value":
            inner = self.resolve(e.value, fi, depth + 1)
            return [(("value-of-" + s) if s in ("member", "param-enum") else s, x) for s, x in inner]
        if d and d.split(".")[0] == "MystWarnings" and fi.module.resolve("MystWarnings").endswith("warnings_.MystWarnings"):
            name = d.split(".", 1)[1] if "." in d else ""
            if name in self.members:
                return [("member", name)]
            return [("bad", f"MystWarnings.{name} is not a member of the catalogue")]
        if isinstance(e, ast.Name):
            # parameter of a wrapper -> every call site of the wrapper
            owner = fi
            while owner is not None and e.id not in owner.params:
                owner = owner.parent_func
            if owner is not None:
                idx = owner.params.index(e.id)
                out: list[tuple[str, str]] = []
                csites = self.wrapper_callers(owner)
                if not csites:
                    ann = None
                    a = owner.node.args
                    for x in a.posonlyargs + a.args + a.kwonlyargs:
                        if x.arg == e.id:
                            ann = x.annotation
                    if ann is not None and unparse(ann).strip("'\"") == "MystWarnings":
                        return [("param-enum", f"{owner.qualname}({e.id}: MystWarnings)")]
                    return [("bad", f"wrapper {owner.fq} has no resolvable call site")]
                for cfi, ccall, shift in csites:
                    arg = None
                    pos = idx - shift
                    if 0 <= pos < len(ccall.args):
                        arg = ccall.args[pos]
                    for kw in ccall.keywords:
                        if kw.arg == e.id:
                            arg = kw.value
                    if arg is None:
                        # default value of the parameter (evaluated in the wrapper's defining scope)
                        dflt = _param_default(owner, e.id)
                        if dflt is not None and not is_const(dflt, None):
                            out.extend(self.resolve(dflt, owner.parent_func or owner, depth + 1))
                        else:
                            out.append(("bad", f"{cfi.module.site(ccall)} passes no value for {e.id}"))
                    else:
                        out.extend(self.resolve(arg, cfi, depth + 1))
                return out
            # local variable: single assignment
            defs = [n for n in walk_local(fi.node) if isinstance(n, ast.Assign) and any(isinstance(t, ast.Name) and t.id == e.id for t in n.targets)]
            if len(defs) == 1:
                return self.resolve(defs[0].value, fi, depth + 1)
            # module-level constant (a hoisted tag string or an alias of a member)
            if not defs and e.id in fi.module.const_nodes:
                return self.resolve(fi.module.const_nodes[e.id], fi, depth + 1)
            return [("bad", f"cannot trace name {e.id}")]
        if isinstance(e, ast.Attribute) and e.attr == "type":
            # ParseWarnings.type: default + every constructor call
            return self.parse_warnings_types()
        if isinstance(e, ast.IfExp):
            return self.resolve(e.body, fi, depth + 1) + self.resolve(e.orelse, fi, depth + 1)
        return [("bad", f"subtype expression not understood: {short(e, 50)}")]

    def wrapper_callers(self, owner: FunctionInfo) -> list[tuple[FunctionInfo, ast.Call, int]]:
        """Call sites of a wrapper (function, method, or lambda handed on as a callback)."""
        g = self.g
        out = []
        shift = 1 if (owner.cls is not None and owner.params and owner.params[0] == "self") else 0
        for fi, call in _callers(self.c).get(owner.fq, []):
            out.append((fi, call, shift))
        return out

    def parse_warnings_types(self) -> list[tuple[str, str]]:
        m = self.c.mod("parsers.directives")
        ci = m.cls("ParseWarnings")
        out: list[tuple[str, str]] = []
        fields = [st for st in ci.node.body if isinstance(st, ast.AnnAssign) and isinstance(st.target, ast.Name)]
        names = [f.target.id for f in fields]
        if "type" not in names:
            return [("bad", "ParseWarnings has no `type` field")]
        idx = names.index("type")
        default = fields[idx].value
        dummy = m.func("parse_directive_text")
        if default is not None:
            out.extend(self.resolve(default, dummy, 1))
        n = 0
        for fi in self.c.all_functions():
            if fi.is_lambda:
                continue
            for call in calls_in(fi.node, into_lambdas=False):
                if fi.module.resolve(dotted(call.func) or "").endswith("parsers.directives.ParseWarnings"):
                    n += 1
                    arg = arg_or_kw(call, idx, "type")
                    if arg is not None:
                        out.extend(self.resolve(arg, fi, 1))
                    elif default is None:
                        out.append(("bad", f"{fi.module.site(call)} ParseWarnings without type"))
        self.parse_warnings_ctor_calls = n
        return out


def _param_default(fi: FunctionInfo, name: str) -> ast.expr | None:
    a = getattr(fi.node, "args", None)
    if a is None:
        return None
    pos = a.posonlyargs + a.args
    for arg, d in zip(pos[len(pos) - len(a.defaults):], a.defaults):
        if arg.arg == name:
            return d
    for arg, d in zip(a.kwonlyargs, a.kw_defaults):
        if arg.arg == name:
            return d
    return None


def _emissions(corpus: Corpus) -> Emissions:
    _CORPUS[0] = corpus
    return corpus.cache("c14-emissions", lambda: Emissions(corpus))


@rule("C14.R1")
def r1_typed_emission(corpus: Corpus, rep: Report, tier: str):
    rep.rule("C14.R1", "every MyST-typed emission names an existing catalogue member (traced through wrappers, lambdas, ParseWarnings.type)")
    em = _emissions(corpus)
    used: dict[str, list[str]] = {}
    for fi, call, kind in em.sites:
        site = fi.module.site(call)
        rep.saw_call(site)
        rep.saw_function(fi.fq)
        k = f"{kind}|{stmt_key(fi, call, 90)}"
        sub = em.subtype_arg(call, kind)
        wt = _lit(em.wtype_arg(call, kind), fi)
        res = em.resolve(sub, fi)
        wt_lit = wt.value if isinstance(wt, ast.Constant) else None
        problems = []
        for status, detail in res:
            if status in ("member", "value-of-member", "param-enum", "value-of-param-enum"):
                if status.endswith("member"):
                    used.setdefault(detail, []).append(site)
                if kind == "logger.warning(type=)" and not status.startswith("value-of"):
                    problems.append("logger call must pass the member's .value, not the enum object")
                if wt is not None and kind != "logger.warning(type=)" and wt_lit != "myst" and not (isinstance(wt, ast.Name)):
                    problems.append(f"catalogue member emitted under wtype {unparse(wt)}")
                if kind == "logger.warning(type=)" and wt_lit is not None and wt_lit != "myst":
                    problems.append(f"catalogue member emitted under type={wt_lit!r}")
            elif status == "literal":
                if wt is None or wt_lit is None:
                    if isinstance(wt, ast.Name) and _is_forwarded_param(wt, fi):
                        continue  # wrapper forwards both; judged at its call sites
                    problems.append(f"string subtype {detail!r} without a literal non-myst wtype: the tag myst.{detail} is outside the catalogue" if detail not in em.members.values() else f"string subtype {detail!r} bypasses the MystWarnings enum")
                elif wt_lit == "myst":
                    if detail not in em.members.values():
                        problems.append(f"tag myst.{detail} is outside the catalogue")
                elif (wt_lit, detail) not in NON_MYST_PAIRS:
                    problems.append(f"tag {wt_lit}.{detail} is not in the closed non-MyST set {sorted(NON_MYST_PAIRS)}")
            else:
                problems.append(detail)
        if problems:
            rep.violation("C14.R1", k, site, "; ".join(sorted(set(problems))))
        else:
            rep.ok("C14.R1", k, site, ", ".join(sorted({f"{s}:{d}" for s, d in res}))[:160])
    corpus._cache["c14-used"] = used
    rep.expect_min("C14.R1", 30, "typed emission call sites (31 create_warning + 6 log_warning + 2 logger on the pinned tree)")


def _is_forwarded_param(name: ast.Name, fi: FunctionInfo) -> bool:
    f = fi
    while f is not None:
        if name.id in f.params:
            return True
        f = f.parent_func
    return False


@rule("C14.R2")
def r2_untyped_closed_list(corpus: Corpus, rep: Report, tier: str):
    rep.rule("C14.R2", "warning-level emissions that bypass the catalogue are a closed, reasoned list")
    n = 0
    allowed = _only_called_from(corpus, dict(UNTYPED_OK))
    for fi in corpus.all_functions():
        calls = calls_in(fi.node, into_lambdas=False) if not fi.is_lambda else calls_in(fi.node.body)
        for call in calls:
            f = call.func
            if not (isinstance(f, ast.Attribute) and f.attr in ("warning", "warn")):
                continue
            recv = unparse(f.value)
            if kwarg(call, "type") is not None:
                continue  # typed: R1
            if not any(x in recv.lower() for x in ("reporter", "logger", "logging", "warnings")):
                continue
            n += 1
            owner = fi
            while owner.parent_func is not None and owner.fq not in allowed:
                owner = owner.parent_func
            k = stmt_key(fi, call, 90)
            site = fi.module.site(call)
            if owner.fq in allowed:
                rep.assumed("C14.R2", k, site, allowed[owner.fq])
            else:
                rep.violation("C14.R2", k, site, f"`{short(call, 70)}` logs a warning without a MyST type/subtype: it is not in the catalogue and cannot be suppressed by tag")
    rep.expect_min("C14.R2", 4, "untyped warning-level emissions known on the pinned tree")


@rule("C14.R3")
def r3_no_member_loses_last_site(corpus: Corpus, rep: Report, tier: str):
    rep.rule("C14.R3", "every catalogue member keeps at least one typed emission site")
    em = _emissions(corpus)
    used = corpus._cache.get("c14-used")
    if used is None:
        raise Exception("R1 did not run")
    ci = corpus.cls("warnings_:MystWarnings")
    for name in em.members:
        k = f"MystWarnings.{name}"
        if used.get(name):
            rep.ok("C14.R3", k, used[name][0], f"{len(used[name])} site(s)")
        elif name in DEAD_MEMBERS:
            rep.listed("C14.R3", k, ci.module.site(ci.node), DEAD_MEMBERS[name])
        else:
            rep.violation("C14.R3", k, ci.module.site(ci.node), f"catalogue member {name} (myst.{em.members[name]}) is documented but no call site emits it with its tag any more")


def _is_name(e: ast.AST | None, name: str) -> bool:
    return isinstance(e, ast.Name) and e.id == name


def _names(e: ast.AST) -> set[str]:
    return {n.id for n in ast.walk(e) if isinstance(n, ast.Name)}


def _strip_not(e: ast.expr) -> tuple[ast.expr, bool]:
    flip = False
    while isinstance(e, ast.UnaryOp) and isinstance(e.op, ast.Not):
        e, flip = e.operand, not flip
    return e, flip


def _bind_call(call: ast.Call, h: FunctionInfo) -> dict[str, ast.expr] | None:
    """helper parameter -> argument expression of a plain call (no */**)."""
    params = [p for p in h.params if p not in ("self", "cls")] if h.cls is not None else list(h.params)
    if any(isinstance(a, ast.Starred) for a in call.args) or any(k.arg is None for k in call.keywords) or len(call.args) > len(params):
        return None
    bound: dict[str, ast.expr] = dict(zip(params, call.args))
    for k in call.keywords:
        if k.arg not in params:
            return None
        bound[k.arg] = k.value  # type: ignore[index]
    return bound


def _return_expr(h: FunctionInfo) -> ast.expr | None:
    """The value a small helper returns, as one expression: a single return, or two returns selected by one test
    (rebuilt as a conditional expression).  None if the helper is not that simple."""
    rets = [n for n in h.local_nodes() if isinstance(n, ast.Return) and n.value is not None]
    if len(rets) == 1 and len([n for n in h.local_nodes() if isinstance(n, ast.Return)]) == 1:
        return rets[0].value
    if len(rets) == 2 and not h.is_lambda:
        cfg = get_cfg(h)
        g0, g1 = cfg.guards(rets[0]), cfg.guards(rets[1])
        if len(g0) == 1 and len(g1) == 1 and g0[0][0] is g1[0][0] and g0[0][1] != g1[0][1]:
            t_ret, f_ret = (rets[0], rets[1]) if g0[0][1] else (rets[1], rets[0])
            return ast.IfExp(test=g0[0][0], body=t_ret.value, orelse=f_ret.value)
    return None


class _TagRoles:
    """create_warning: single-assignment locals and the classifiers of the two tag strings.

    Roles are taken from the public parameter names of create_warning (``subtype``, ``wtype``, ``message`` are
    keyword names used by the call sites, i.e. API, not local spelling); locals are followed by definition, a
    private helper that computes a string is followed with its parameters substituted."""

    OK, BAD, UNKNOWN = "ok", "bad", "unknown"

    def __init__(self, cw: FunctionInfo, resolver=None, n_sub: str = "subtype", n_type: str = "wtype", type_default: ast.expr | None = None, depth: int = 0, outer: "_TagRoles | None" = None, bound: dict[str, ast.expr] | None = None):
        self.cw = cw
        self.outer, self.bound = outer, bound or {}  # a split-off helper: parameter -> expression in the caller
        self.resolver, self.n_sub, self.n_type, self.depth = resolver, n_sub, n_type, depth
        self.type_default = type_default if depth else _param_default(cw, n_type)
        self.counts: dict[str, int] = {}
        self.defs: dict[str, ast.expr] = {}
        self.tuple_defs: dict[str, tuple[ast.Call, int]] = {}
        self._unpacked: list[tuple[list[str], str]] = []
        for n in cw.local_nodes():
            if isinstance(n, ast.Name) and isinstance(n.ctx, ast.Store):
                self.counts[n.id] = self.counts.get(n.id, 0) + 1
            if isinstance(n, ast.Assign) and len(n.targets) == 1 and isinstance(n.targets[0], ast.Name):
                self.defs[n.targets[0].id] = n.value
            elif isinstance(n, ast.AnnAssign) and isinstance(n.target, ast.Name) and n.value is not None:
                self.defs[n.target.id] = n.value
            elif isinstance(n, ast.Assign) and len(n.targets) == 1 and isinstance(n.targets[0], (ast.Tuple, ast.List)) and all(isinstance(x, ast.Name) for x in n.targets[0].elts):
                names = [x.id for x in n.targets[0].elts]  # type: ignore[union-attr]
                if isinstance(n.value, (ast.Tuple, ast.List)) and len(n.value.elts) == len(names):
                    for nm, v in zip(names, n.value.elts):
                        self.defs[nm] = v
                elif isinstance(n.value, ast.Call):
                    for i, nm in enumerate(names):
                        self.tuple_defs[nm] = (n.value, i)
                elif isinstance(n.value, ast.Name):
                    self._unpacked.append((names, n.value.id))
        for names, src in self._unpacked:  # `type_str, subtype_str = tag` with `tag = _Tag(...)`
            rec = self._record_fields(self.defs.get(src)) if self.counts.get(src) == 1 else None
            order = rec.get("\0order") if rec else None
            if isinstance(order, ast.Tuple) and len(order.elts) == len(names):
                for nm, v in zip(names, order.elts):
                    self.defs[nm] = v

    def _record_fields(self, v: ast.expr | None) -> dict[str, ast.expr] | None:
        """``v`` constructs a NamedTuple / dataclass of this module: field name -> argument expression."""
        if not isinstance(v, ast.Call) or not isinstance(v.func, ast.Name):
            return None
        ci = self.cw.module.classes.get(v.func.id)
        if ci is None or "__init__" in ci.methods or "__new__" in ci.methods:
            return None
        is_nt = any(b.split(".")[-1] == "NamedTuple" for b in ci.bases)
        is_dc = any("dataclass" in unparse(d) for d in ci.node.decorator_list)
        if not (is_nt or is_dc):
            return None
        fields = [s.target.id for s in ci.node.body if isinstance(s, ast.AnnAssign) and isinstance(s.target, ast.Name)]
        if any(isinstance(a, ast.Starred) for a in v.args) or any(k.arg is None for k in v.keywords) or len(v.args) > len(fields):
            return None
        out = dict(zip(fields, v.args))
        for k in v.keywords:
            out[k.arg] = k.value  # type: ignore[index]
        out["\0order"] = ast.Tuple(elts=[out[f] for f in fields if f in out], ctx=ast.Load())
        return out

    def deref(self, e: ast.expr | None) -> ast.expr | None:
        for _ in range(10):
            if isinstance(e, ast.Name) and e.id not in self.cw.params and self.counts.get(e.id) == 1 and e.id in self.defs:
                e = self.defs[e.id]
            elif isinstance(e, ast.Attribute) and isinstance(e.value, ast.Name) and e.value.id not in self.cw.params and self.counts.get(e.value.id) == 1 and e.value.id in self.defs:
                rec = self._record_fields(self.defs[e.value.id])  # tag.type of `tag = _Tag(type_str, subtype_str)`
                if rec is None or e.attr not in rec:
                    break
                e = rec[e.attr]
            else:
                break
        return e

    def same(self, a: ast.expr | None, b: ast.expr | None) -> bool:
        a, b = self.deref(a), self.deref(b)
        return a is not None and b is not None and unparse(a) == unparse(b)

    def _via_helper(self, e: ast.expr, which: str) -> tuple[str, str] | None:
        """``e`` is computed by a private helper: classify the helper's return value instead."""
        index = None
        if isinstance(e, ast.Name) and self.counts.get(e.id) == 1 and e.id in self.tuple_defs:
            e, index = self.tuple_defs[e.id]
        if not isinstance(e, ast.Call) or self.resolver is None or self.depth >= 2:
            return None
        try:
            targets = self.resolver(e, self.cw)
        except Exception:
            return None
        if len(targets) != 1 or targets[0].is_lambda or targets[0].fq == self.cw.fq:
            return None
        h = targets[0]
        bound = _bind_call(e, h)
        if bound is None:
            return None
        role = {}
        for p, a in bound.items():
            a = self.deref(a)
            if _is_name(a, self.n_sub):
                role["sub"] = p
            elif _is_name(a, self.n_type):
                role["type"] = p
        if which not in role:
            return None
        sub = _TagRoles(h, self.resolver, role.get("sub", "\0sub"), role.get("type", "\0type"), self.type_default, self.depth + 1)
        val = _return_expr(h)
        if val is not None and index is not None:
            val = sub.deref(val)
            val = val.elts[index] if isinstance(val, (ast.Tuple, ast.List)) and index < len(val.elts) else None
        if val is None:
            return self.UNKNOWN, f"helper {h.name} is not a single returned expression"
        st = sub.classify_sub(val) if which == "sub" else sub.classify_type(val)
        return st if st[0] != self.UNKNOWN else (self.UNKNOWN, f"in helper {h.name}: {st[1]}")

    def classify_sub(self, e: ast.expr | None) -> tuple[str, str]:
        """Is ``e`` the catalogue string of the ``subtype`` argument (str kept, enum member -> .value)?"""
        S = self.n_sub
        e = self.deref(e)
        if e is None:
            return self.UNKNOWN, "no subtype expression"
        if self.outer is not None and isinstance(e, ast.Name) and e.id in self.bound:
            return self.outer.classify_sub(self.bound[e.id])
        via = self._via_helper(e, "sub")
        if via is not None:
            return via
        lit = _lit(e, self.cw)
        if isinstance(lit, ast.Constant):
            return self.BAD, f"the fixed string {lit.value!r} is used instead of the warning's own subtype"
        if _is_name(e, S):
            return self.BAD, "the raw `subtype` argument is used (an enum object for catalogue members), not its catalogue string"
        if isinstance(e, ast.Call) and dotted(e.func) == "getattr" and len(e.args) == 3 and _is_name(e.args[0], S) and _is_name(e.args[2], S) and isinstance(e.args[1], ast.Constant):
            if e.args[1].value == "value":
                return self.OK, ""
            return self.BAD, f"enum members are rendered with .{e.args[1].value}, not .value: tags are no longer the catalogue values"
        if isinstance(e, ast.IfExp):
            test, flip = _strip_not(e.test)
            if isinstance(test, ast.Call) and dotted(test.func) == "isinstance" and len(test.args) == 2 and _is_name(test.args[0], S):
                cls = (dotted(test.args[1]) or "").split(".")[-1]
                if cls == "str":
                    str_when_true = True
                elif cls in ("MystWarnings", "Enum"):
                    str_when_true = False
                else:
                    return self.UNKNOWN, f"isinstance test against {unparse(test.args[1])}"
                if flip:
                    str_when_true = not str_when_true
                s_br, e_br = (e.body, e.orelse) if str_when_true else (e.orelse, e.body)
                if isinstance(s_br, ast.Attribute) and _is_name(s_br.value, S) and _is_name(e_br, S):
                    return self.BAD, f"the branches are exchanged: a str subtype is rendered through .{s_br.attr} and an enum member is passed on as an object"
                if not _is_name(s_br, S):
                    return self.UNKNOWN, f"string branch is {short(s_br, 40)}"
                if isinstance(e_br, ast.Attribute) and _is_name(e_br.value, S):
                    if e_br.attr == "value":
                        return self.OK, ""
                    return self.BAD, f"enum members are rendered with .{e_br.attr}, not .value: tags are no longer the catalogue values"
                if _is_name(e_br, S):
                    return self.BAD, "enum members are passed on as objects, not as their .value"
                return self.UNKNOWN, f"enum branch is {short(e_br, 40)}"
        return self.UNKNOWN, f"subtype string computed as {short(e, 50)}"

    def classify_type(self, e: ast.expr | None) -> tuple[str, str]:
        """Is ``e`` the ``wtype`` argument with the default 'myst'?"""
        T = self.n_type
        e = self.deref(e)
        default: ast.expr | None = None
        if e is None:
            return self.UNKNOWN, "no type expression"
        if self.outer is not None and isinstance(e, ast.Name) and e.id in self.bound:
            return self.outer.classify_type(self.bound[e.id])
        via = self._via_helper(e, "type")
        if via is not None:
            return via
        lit = _lit(e, self.cw)
        if isinstance(lit, ast.Constant):
            return self.BAD, f"the fixed type {lit.value!r} is used instead of the warning's own type (wtype, e.g. 'ref' for ref.footnote)"
        if _is_name(e, T):
            default = self.type_default
            if default is None or is_const(default, None):
                return self.BAD, "the raw `wtype` argument is used: it is None, not 'myst', when the caller gives no type"
        elif isinstance(e, ast.IfExp):
            test, flip = _strip_not(e.test)
            wt_when_true = None
            if _is_name(test, T):
                wt_when_true = True
            elif isinstance(test, ast.Compare) and len(test.ops) == 1 and _is_name(test.left, T) and is_const(test.comparators[0], None):
                if isinstance(test.ops[0], (ast.IsNot, ast.NotEq)):
                    wt_when_true = True
                elif isinstance(test.ops[0], (ast.Is, ast.Eq)):
                    wt_when_true = False
            if wt_when_true is None:
                return self.UNKNOWN, f"type selected by {short(e.test, 40)}"
            if flip:
                wt_when_true = not wt_when_true
            w_br, default = (e.body, e.orelse) if wt_when_true else (e.orelse, e.body)
            if not _is_name(w_br, T):
                if _is_name(default, T):
                    return self.BAD, "the branches are exchanged: the default replaces a given wtype and None is kept"
                return self.UNKNOWN, f"given-type branch is {short(w_br, 40)}"
        elif isinstance(e, ast.BoolOp) and isinstance(e.op, ast.Or) and len(e.values) == 2 and _is_name(e.values[0], T):
            default = e.values[1]
        else:
            return self.UNKNOWN, f"type string computed as {short(e, 50)}"
        default = _lit(default, self.cw)
        if isinstance(default, ast.Constant) and isinstance(default.value, str):
            if default.value == "myst":
                return self.OK, ""
            return self.BAD, f"the type defaults to {default.value!r}, not 'myst'"
        return self.UNKNOWN, f"default type is {short(default, 40)}"


_SUPPRESS_NAMES = ("suppress_warnings", "myst_suppress_warnings")
_NODE_EFFECTS = (".append", ".extend", ".insert", ".warning", ".error", ".info", "_create_warning_node", "system_message")


def _is_direct_builder(c: ast.Call) -> bool:
    d = dotted(c.func) or ""
    return d == "_create_warning_node" or d.endswith("reporter.warning") or d.split(".")[-1] == "system_message"


def _text_arg(c: ast.Call, resolver, fi: FunctionInfo) -> ast.expr | None:
    if c.args and not isinstance(c.args[0], ast.Starred):
        return c.args[0]
    try:
        ts = resolver(c, fi)
    except Exception:
        ts = []
    if len(ts) == 1:
        b = _bind_call(c, ts[0])
        if b:
            return b.get(ts[0].params[0] if ts[0].cls is None else ([p for p in ts[0].params if p != "self"] or [""])[0])
    return kwarg(c, "message")


def _node_builders(cw: FunctionInfo, resolver, skip: set[int] | None = None) -> list[tuple[ast.Call, ast.expr | None, str]]:
    """Calls in ``cw`` that build the message node: (call, expression of the message text, label).
    A private helper that builds the node from one of its parameters is followed (two levels); calls whose id is
    in ``skip`` (emitters that carry their own suppression test) are not builders."""
    skip = skip or set()

    def inner(fi: FunctionInfo, depth: int) -> list[tuple[ast.Call, ast.expr | None, str]]:
        out = []
        for c in fi.local_nodes():
            if not isinstance(c, ast.Call) or id(c) in skip:
                continue
            if _is_direct_builder(c):
                out.append((c, _text_arg(c, resolver, fi), dotted(c.func) or "?"))
                continue
            if depth >= 2 or resolver is None:
                continue
            try:
                ts = resolver(c, fi)
            except Exception:
                continue
            if not ts or any(h.is_lambda or h.module is not cw.module or h.fq == fi.fq for h in ts):
                continue
            subs = [(h, inner(h, depth + 1)) for h in ts]
            subs = [(h, s) for h, s in subs if s]
            if not subs:
                continue
            text = None
            if len(subs) == 1 and len(ts) == 1:
                h, sub = subs[0]
                bound = _bind_call(c, h) or {}
                texts = {unparse(t) if t is not None else None for _, t, _ in sub}
                if len(texts) == 1 and None not in texts:
                    t = sub[0][1]
                    text = bound.get(t.id) if isinstance(t, ast.Name) else None
            out.append((c, text, "/".join(h.name for h, _ in subs)))
        return out

    return inner(cw, 0)


def _find_isw(corpus: Corpus, cw: FunctionInfo) -> FunctionInfo:
    """_is_suppressed_warning - by name, or (renamed) the one function of the module that create_warning or a helper
    private to it calls with the suppress-warnings setting as an argument."""
    w = cw.module
    if "_is_suppressed_warning" in w.functions:
        return w.functions["_is_suppressed_warning"]
    resolver = _resolver_of(corpus)
    conf = _only_called_from(corpus, {cw.fq: "create_warning"}, w)
    cands: dict[str, FunctionInfo] = {}
    for f in w.functions.values():
        if f.fq not in conf:
            continue
        for c in f.local_nodes():
            if isinstance(c, ast.Call) and any((isinstance(x, ast.Attribute) and x.attr in _SUPPRESS_NAMES) or (isinstance(x, ast.Constant) and x.value in _SUPPRESS_NAMES) for a in list(c.args) + [k.value for k in c.keywords] for x in ast.walk(a)):
                for h in resolver(c, f):
                    if h.module is w and len(h.params) >= 3:
                        cands[h.fq] = h
    if len(cands) != 1:
        return w.func("_is_suppressed_warning")  # AnchorMissing
    return next(iter(cands.values()))


def _confined_helpers(corpus: Corpus, cw: FunctionInfo) -> dict[str, FunctionInfo]:
    """Functions of create_warning's module that are only ever called from create_warning (transitively)."""
    conf = _only_called_from(corpus, {cw.fq: "create_warning"}, cw.module)
    return {f.fq: f for f in cw.module.functions.values() if f.fq in conf}


@rule("C14.R4")
def r4_suppression_confined(corpus: Corpus, rep: Report, tier: str):
    rep.rule("C14.R4", "only create_warning (and helpers private to it) consults suppression; test (on the emitted tag) precedes node creation; every suppress entry is consulted; accepted forms are type / type.sub / type.*")
    g = get_callgraph(corpus)
    w = corpus.mod("warnings_")
    cw = w.func("create_warning")
    _CORPUS[0] = corpus
    isw = _find_isw(corpus, cw)
    conf = _confined_helpers(corpus, cw)
    # (a) who calls _is_suppressed_warning
    for fi, call in _callers(corpus).get(isw.fq, []):
        k = f"{fi.fq}|calls _is_suppressed_warning"
        if fi.fq == cw.fq:
            rep.ok("C14.R4", k, fi.module.site(call))
        elif fi.fq in conf:
            rep.ok("C14.R4", k, fi.module.site(call), "helper only called from create_warning")
        else:
            rep.violation("C14.R4", k, fi.module.site(call), "suppression is consulted outside create_warning: behaviour other than the warning itself can depend on suppress_warnings")
    # (b) who reads suppress_warnings
    allowed_readers = {cw.fq: "the suppression test"}
    for fi in corpus.all_functions():
        nodes = fi.local_nodes() if not fi.is_lambda else list(ast.walk(fi.node.body))
        for n in nodes:
            attr = None
            if isinstance(n, ast.Attribute) and n.attr in _SUPPRESS_NAMES and isinstance(n.ctx, ast.Load):
                attr = n.attr
            elif isinstance(n, ast.Call) and dotted(n.func) == "getattr" and len(n.args) >= 2 and isinstance(_lit(n.args[1], fi), ast.Constant) and _lit(n.args[1], fi).value in _SUPPRESS_NAMES:
                attr = _lit(n.args[1], fi).value  # the same read, spelled with a string
            elif isinstance(n, ast.Call) and isinstance(n.func, ast.Attribute) and n.func.attr == "get" and n.args and isinstance(_lit(n.args[0], fi), ast.Constant) and _lit(n.args[0], fi).value in _SUPPRESS_NAMES:
                attr = _lit(n.args[0], fi).value
            elif isinstance(n, ast.Subscript) and isinstance(n.ctx, ast.Load) and isinstance(_lit(n.slice, fi), ast.Constant) and _lit(n.slice, fi).value in _SUPPRESS_NAMES:
                attr = _lit(n.slice, fi).value
            if attr is not None:
                owner = fi
                k = f"{fi.fq}|reads {attr}"
                if owner.fq in allowed_readers:
                    rep.ok("C14.R4", k, fi.module.site(n), allowed_readers[owner.fq])
                elif owner.fq in conf:
                    rep.ok("C14.R4", k, fi.module.site(n), "helper only called from create_warning")
                else:
                    rep.violation("C14.R4", k, fi.module.site(n), f"{fi.qualname} reads {attr}: output other than the suppressed warning may depend on the suppress list")
    # (c) inside create_warning: per front-end branch, suppression test first, node built after
    resolver = _resolver_of(corpus)
    _check_create_warning(cw, isw, rep, resolver, conf)
    # (d) every entry consulted + accepted forms in _is_suppressed_warning
    em = _emissions(corpus)
    dotfree = all("." not in v for v in em.members.values()) and all("." not in a and "." not in b for a, b in NON_MYST_PAIRS)
    _check_forms(isw, rep, dotfree, resolver)


class _Unit:
    """create_warning, or a private helper split off it that carries its own suppression test (an *emitter*:
    it returns the message node, or None when the warning is suppressed)."""

    def __init__(self, fi: FunctionInfo, roles: "_TagRoles"):
        self.fi, self.roles = fi, roles
        self.emitter_calls: dict[int, ast.Call] = {}  # calls in fi that go to emitter units
        self.result_vars: set[str] = set()  # locals holding an emitter's result (None = suppressed)
        self.problems: list[str] = []
        self.untested: list[tuple[ast.Call, FunctionInfo]] = []  # calls that may run a node-building helper without a test


def _has_suppression_test(h: FunctionInfo, isw: FunctionInfo) -> bool:
    answers = {n.targets[0].id for n in h.local_nodes() if isinstance(n, ast.Assign) and len(n.targets) == 1 and isinstance(n.targets[0], ast.Name) and any(isinstance(c, ast.Call) and dotted(c.func) == isw.name for c in ast.walk(n.value))}
    for n in h.local_nodes():
        if isinstance(n, ast.If) and (any(isinstance(c, ast.Call) and dotted(c.func) == isw.name for c in ast.walk(n.test)) or (_names(n.test) & answers)):
            return True
    return False


def _discover_units(cw: FunctionInfo, isw: FunctionInfo, resolver, conf: dict[str, FunctionInfo]) -> list[_Unit]:
    """create_warning and the emitters it delegates to (parameters bound to create_warning's expressions)."""
    units: list[_Unit] = []
    seen: set[str] = set()

    def visit(fi: FunctionInfo, roles: _TagRoles, depth: int) -> None:
        if fi.fq in seen:
            return
        seen.add(fi.fq)
        u = _Unit(fi, roles)
        units.append(u)
        if resolver is None or depth >= 2:
            return
        for c in fi.local_nodes():
            if not isinstance(c, ast.Call) or dotted(c.func) == isw.name:
                continue
            try:
                ts = resolver(c, fi)
            except Exception:
                continue
            ts = [h for h in ts if h.fq in conf and h.fq not in (cw.fq, isw.fq, fi.fq) and not h.is_lambda]
            if not ts or not any(_has_suppression_test(h, isw) for h in ts):
                continue
            for h in ts:
                if not _has_suppression_test(h, isw) and _node_builders(h, resolver):
                    u.untested.append((c, h))
            u.emitter_calls[id(c)] = c
            p = parent(c)
            if isinstance(p, ast.Assign) and len(p.targets) == 1 and isinstance(p.targets[0], ast.Name):
                u.result_vars.add(p.targets[0].id)
            elif not (isinstance(p, ast.Return) or isinstance(p, ast.Expr)):
                u.problems.append(f"the result of `{short(c, 40)}` is used in `{short(p, 40)}` (not understood)")
            for h in ts:
                bound = _bind_call(c, h)
                if bound is None:
                    u.problems.append(f"call `{short(c, 40)}` of {h.name} uses */** arguments (not understood)")
                    continue
                visit(h, _TagRoles(h, resolver, "\0sub", "\0type", None, roles.depth + 1, outer=roles, bound=bound), depth + 1)

    visit(cw, _TagRoles(cw, resolver), 0)
    return units


def _check_create_warning(cw: FunctionInfo, isw: FunctionInfo, rep: Report, resolver=None, conf: dict[str, FunctionInfo] | None = None) -> None:
    conf = conf or {}
    units = _discover_units(cw, isw, resolver, conf)
    totals = {"tests": 0, "builders": 0, "answers": 0}
    for u in units:
        _check_unit(u, cw, isw, rep, resolver, conf, totals)
    if not totals["tests"] or not totals["answers"] or totals["builders"] < 2:
        rep.error("C14.R4", f"create_warning shape not understood ({totals['tests']} suppression tests, {totals['builders']} node builders in {len(units)} function(s))")


def _check_unit(u: _Unit, top: FunctionInfo, isw: FunctionInfo, rep: Report, resolver, conf: dict[str, FunctionInfo], totals: dict[str, int]) -> None:
    cw, roles = u.fi, u.roles
    cfg = get_cfg(cw)
    p_type, p_sub = isw.params[0], isw.params[1]
    for msg in u.problems:
        rep.error("C14.R4", f"{cw.qualname}: {msg}")

    def answer_args(c: ast.AST) -> tuple[ast.expr | None, ast.expr | None] | None:
        """If ``c`` is a call whose value is the suppression answer: the (type, subtype) expressions, in
        this function's terms, that it is asked about."""
        if not isinstance(c, ast.Call):
            return None
        if dotted(c.func) == isw.name:
            return arg_or_kw(c, 0, p_type), arg_or_kw(c, 1, p_sub)
        if resolver is None or id(c) in u.emitter_calls:
            return None
        try:
            ts = resolver(c, cw)
        except Exception:
            return None
        if len(ts) != 1 or ts[0].fq not in conf or ts[0].fq in (top.fq, cw.fq, isw.fq):
            return None
        h = ts[0]
        inner = [n for n in h.local_nodes() if isinstance(n, ast.Call) and dotted(n.func) == isw.name]
        if len(inner) != 1:
            return None
        hr = _TagRoles(h)
        val = hr.deref(_return_expr(h))
        if val is not inner[0]:
            return None  # the helper does not simply return the answer
        bound = _bind_call(c, h) or {}
        out = []
        for a in (arg_or_kw(inner[0], 0, p_type), arg_or_kw(inner[0], 1, p_sub)):
            a = hr.deref(a)
            out.append(bound.get(a.id) if isinstance(a, ast.Name) and a.id in bound else None)
        return out[0], out[1]

    def supp_calls(e: ast.AST) -> list[ast.Call]:
        return [c for c in ast.walk(e) if answer_args(c) is not None]  # type: ignore[misc]

    # names that hold the answer of the suppression test (``suppressed = _is_suppressed_warning(...)``)
    answer_names = {nm for nm, v in roles.defs.items() if roles.counts.get(nm) == 1 and supp_calls(v)}
    tests: list[tuple[ast.If, bool]] = []  # (if statement, test is true when suppressed)
    for n in cw.local_nodes():
        if not isinstance(n, ast.If):
            continue
        if not (supp_calls(n.test) or (_names(n.test) & answer_names)):
            continue
        core, flip = _strip_not(n.test)
        if not (answer_args(core) is not None or (isinstance(core, ast.Name) and core.id in answer_names)):
            rep.error("C14.R4", f"{cw.qualname}: suppression answer is combined with other conditions in `{short(n.test, 60)}` (not understood)")
            return
        tests.append((n, not flip))
    found = _node_builders(cw, resolver, set(u.emitter_calls))
    builders = [c for c, _, _ in found] + [n for n in cw.local_nodes() if isinstance(n, ast.Call) and (dotted(n.func) or "").endswith(".append")]
    all_calls = [n for n in cw.local_nodes() if answer_args(n) is not None]
    totals["tests"] += len(tests) + len(u.emitter_calls)
    totals["builders"] += len(builders)
    totals["answers"] += len(all_calls)
    if not tests and not u.emitter_calls:
        if builders and cw is top:
            rep.error("C14.R4", f"{cw.qualname}: builds the message node but has no suppression test and delegates to no helper that has one (shape not understood)")
        return
    for call in all_calls:
        k = f"{cw.fq}|{short(call, 80)}|arguments"
        a0, a1 = answer_args(call)  # type: ignore[misc]
        t, s = roles.classify_type(a0), roles.classify_sub(a1)
        site = cw.module.site(call)
        if t[0] == "ok" and s[0] == "ok":
            rep.ok("C14.R4", k, site, "tested on (type with default 'myst', catalogue string of the subtype)")
        elif roles.classify_type(a1)[0] == "ok" and roles.classify_sub(a0)[0] == "ok":
            rep.violation("C14.R4", k, site, "_is_suppressed_warning must be given (type, subtype) in that order")
        elif t[0] == "bad" or s[0] == "bad":
            rep.violation("C14.R4", k, site, "suppression is not tested on the emitted tag: " + "; ".join(x[1] for x in (t, s) if x[0] == "bad"))
        else:
            rep.error("C14.R4", f"{cw.qualname}: cannot decide which tag `{short(call, 60)}` tests: " + "; ".join(x[1] for x in (t, s) if x[0] != "ok"))
    clear_edges = set()
    # an emitter's result is None exactly when the warning is suppressed: a presence test of it is a clear edge
    for n in cw.local_nodes():
        if isinstance(n, ast.If) and (_names(n.test) & u.result_vars):
            for pol in (True, False):
                for tt, pp in flow_facts(n.test, pol):
                    if any(_presence_test(tt, v) * (1 if pp else -1) > 0 for v in u.result_vars):
                        clear_edges.add(("T" if pol else "F", n))
    for t, pos in tests:
        k = f"{cw.fq}|{short(t.test, 80)}"
        site = cw.module.site(t)
        branch = t.body if pos else t.orelse  # what runs for a suppressed warning
        if not branch:
            rep.error("C14.R4", f"{cw.qualname}: inverted suppression test `{short(t.test, 50)}` without an else branch (not understood)")
            continue
        clear_edges.add(("F" if pos else "T", t))
        body = [s for s in branch if not isinstance(s, ast.Pass) and not (isinstance(s, ast.Expr) and isinstance(s.value, ast.Constant))]
        last = body[-1] if body else None
        if not (isinstance(last, ast.Return) and (last.value is None or is_const(last.value, None))):
            rep.violation("C14.R4", k, site, "a suppressed warning must return None at once; the branch does something else")
            continue
        extra = body[:-1]
        eff = [c for s in extra for c in ast.walk(s) if isinstance(c, ast.Call) and ((dotted(c.func) or "").endswith(_NODE_EFFECTS) or any(c is b for b in builders))]
        if eff:
            rep.violation("C14.R4", k, site, f"a suppressed warning must return None at once; the branch also runs `{short(eff[0], 50)}`")
        elif extra:
            rep.error("C14.R4", f"{cw.qualname}: statements before `return None` in the suppressed branch not understood: `{short(extra[0], 50)}`")
        else:
            rep.ok("C14.R4", k, site)
    test_edges = {("F" if pos else "T", t) for t, pos in tests}
    for c, h in u.untested:
        st = cfg.stmt_of(c)
        k = f"{cw.fq}|{short(c, 50)}|{h.name} has no suppression test"
        if cfg.paths_avoiding("ENTRY", st, lambda n: n in test_edges):
            rep.violation("C14.R4", k, cw.module.site(c), f"`{short(c, 40)}` can run {h.name}, which builds the message node without a suppression test, and the call has not passed one either: a suppressed warning still reaches the doctree")
        else:
            rep.ok("C14.R4", k, cw.module.site(c), "the call itself is dominated by the not-suppressed edge")
    # the optional parent: `if append_to is not None` - a truth-value test would skip an EMPTY parent element
    for b in builders:
        if not ((dotted(b.func) or "").endswith(".append") and isinstance(b.func, ast.Attribute) and isinstance(b.func.value, ast.Name) and b.func.value.id in cw.params):
            continue
        pname = b.func.value.id
        facts_p = [(tt, pp) for tt, pp in cfg.guards(cfg.stmt_of(b)) if pname in _names(tt)]
        k = f"{cw.fq}|{pname} guard"
        none_tests = [1 for tt, pp in facts_p if isinstance(tt, ast.Compare) and len(tt.ops) == 1 and _is_name(tt.left, pname) and is_const(tt.comparators[0], None) and (isinstance(tt.ops[0], (ast.IsNot, ast.NotEq)) == pp)]
        truthy = [tt for tt, pp in facts_p if _is_name(tt, pname) and pp]
        if none_tests:
            rep.ok("C14.R4", k, cw.module.site(b), "the message node is attached whenever a parent is given")
        elif truthy:
            rep.violation("C14.R4", k, cw.module.site(b), f"the message node is attached only if `{pname}` is truthy: a docutils element without children is falsy, so the warning is missing from the doctree when the given parent is still empty (a None test is meant)")
        elif facts_p:
            rep.error("C14.R4", f"{cw.qualname}: condition on `{pname}` before `{short(b, 40)}` not understood")
    for b in builders:
        st = cfg.stmt_of(b)
        k = f"{cw.fq}|{short(b, 70)}"
        # every path from ENTRY to the builder passes a suppression test's not-suppressed edge
        dominated = not cfg.paths_avoiding("ENTRY", st, lambda n: n in clear_edges)
        if dominated:
            rep.ok("C14.R4", k, cw.module.site(b), "dominated by the not-suppressed edge")
        else:
            rep.violation("C14.R4", k, cw.module.site(b), "the message node is built/attached on a path that has not passed the suppression test: a suppressed warning still reaches the doctree")

    # nothing but logging/imports/assignments precedes the test in its branch
    def harmless(st: ast.stmt) -> bool:
        if isinstance(st, (ast.Import, ast.ImportFrom, ast.Assign, ast.AnnAssign, ast.Pass)):
            return True
        if isinstance(st, ast.Expr) and isinstance(st.value, ast.Constant):
            return True
        if isinstance(st, ast.Expr) and isinstance(st.value, ast.Call):
            d = dotted(st.value.func) or ""
            return d.endswith(".warning") and "logger" in d.lower()
        if isinstance(st, ast.If):
            return all(harmless(x) for x in st.body + st.orelse)
        return False

    for t, _pos in tests:
        blk = None
        p = parent(t)
        for fld in ("body", "orelse"):
            if t in getattr(p, fld, []):
                blk = getattr(p, fld)
        for prev in (blk or [])[: (blk or []).index(t)] if blk else []:
            k = f"{cw.fq}|before-test|{short(prev, 60)}"
            if harmless(prev):
                rep.ok("C14.R4", k, cw.module.site(prev))
            else:
                rep.violation("C14.R4", k, cw.module.site(prev), "a statement with effects precedes the suppression test")


# -- _is_suppressed_warning --------------------------------------------------------------

_WHOLE_WRAPPERS = {"list", "tuple", "set", "frozenset", "sorted", "reversed", "iter"}


def _covers_list(e: ast.expr, p_list: str) -> str:
    """'whole' | 'part' | 'unknown': does iterating ``e`` visit every entry of the suppress list?"""
    if isinstance(e, ast.Name):
        return "whole" if e.id == p_list else "unknown"
    if isinstance(e, ast.Call) and isinstance(e.func, ast.Name) and e.func.id in _WHOLE_WRAPPERS and len(e.args) == 1:
        return _covers_list(e.args[0], p_list)
    if isinstance(e, ast.BoolOp) and isinstance(e.op, ast.Or) and len(e.values) == 2 and isinstance(e.values[1], (ast.List, ast.Tuple)) and not e.values[1].elts:
        return _covers_list(e.values[0], p_list)
    if isinstance(e, ast.Subscript) and _covers_list(e.value, p_list) == "whole":
        s = e.slice
        if isinstance(s, ast.Slice):
            if s.lower is None and s.upper is None and (s.step is None or (isinstance(s.step, ast.Constant) and s.step.value in (1, -1)) or unparse(s.step) == "-1"):
                return "whole"
            return "part"
        return "unknown"
    return "unknown"


def _vrepr(e: ast.expr) -> str:
    return repr(e.value) if isinstance(e, ast.Constant) else unparse(e)


class _Forms:
    """Roles in one scope of the suppression matcher (the loop body of _is_suppressed_warning, or a helper it
    calls with the entry): entry, part before the first dot, part after it.  Conditional expressions are
    branches; a helper called with the entry is followed (parameters substituted), its names prefixed."""

    RET = ("<ret0>", "<ret1>")

    def __init__(self, fi: FunctionInfo, body: list[ast.AST], entry: str, p_type: str, p_sub: str, p_list: str, resolver, prefix: str = "", depth: int = 0):
        self.fi = fi
        self.p_type, self.p_sub, self.p_list = p_type, p_sub, p_list
        self.entry = entry
        self.resolver, self.prefix, self.depth = resolver, prefix, depth
        self.cfg = get_cfg(fi) if not fi.is_lambda else None
        self.body_nodes = {id(n) for st in body for n in ast.walk(st)}
        self.loopnames = {entry} | {n.id for st in body for n in ast.walk(st) if isinstance(n, ast.Name) and isinstance(n.ctx, ast.Store)}
        self.heads: dict[str, set] = {}
        self.tails: dict[str, set] = {}
        self.unknown: set[str] = set()
        self.aliases: list[tuple[str, str]] = []
        self.split_sites: list[tuple[ast.AST, FunctionInfo, list[tuple]]] = []  # (construct, function, facts that hold there)
        self.split_calls: list[tuple[ast.Call, FunctionInfo]] = []
        self.partition_calls: list[tuple[ast.Call, FunctionInfo]] = []
        self.partition_tails: set[str] = set()
        self.partition_seps: set[str] = set()
        self.saw_whole = False  # the entry is (also) compared as a whole with type / type.subtype / type.*
        self._pred_cache: dict[int, tuple] = {}
        local = [n for st in body for n in ast.walk(st)]
        for n in local:
            if self.is_split(n):
                self.split_calls.append((n, fi))  # type: ignore[arg-type]
            if self.is_partition(n):
                self.partition_calls.append((n, fi))  # type: ignore[arg-type]
            if isinstance(n, ast.Assign):
                if len(n.targets) != 1:
                    self.unknown |= {self.prefix + x for x in _names(n)}
                    continue
                self._bind(n, n.targets[0], n.value, [])
            elif isinstance(n, ast.AnnAssign) and n.value is not None:
                self._bind(n, n.target, n.value, [])
            elif isinstance(n, (ast.AugAssign, ast.NamedExpr)):
                self.unknown |= {self.prefix + x.id for x in ast.walk(n.target) if isinstance(x, ast.Name)}
            elif isinstance(n, (ast.For, ast.comprehension, ast.With)):
                t = getattr(n, "target", None)
                if t is not None and not (isinstance(t, ast.Name) and t.id == entry):
                    self.unknown |= {self.prefix + x for x in _names(t)}

    def finish(self) -> None:
        """Propagate roles through plain copies (``a = target``, ``return target, subtarget``)."""
        for _ in range(4):
            for dst, src in self.aliases:
                if src in self.unknown or not (src in self.heads or src in self.tails):
                    self.unknown.add(dst)
                if src in self.heads:
                    self.heads.setdefault(dst, set()).update(self.heads[src])
                if src in self.tails:
                    self.tails.setdefault(dst, set()).update(self.tails[src])

    def is_split(self, e: ast.AST) -> bool:
        return isinstance(e, ast.Call) and isinstance(e.func, ast.Attribute) and e.func.attr in ("split", "rsplit") and _is_name(e.func.value, self.entry)

    def is_partition(self, e: ast.AST) -> bool:
        return isinstance(e, ast.Call) and isinstance(e.func, ast.Attribute) and e.func.attr == "partition" and _is_name(e.func.value, self.entry) and len(e.args) == 1 and not e.keywords

    def lit(self, e: ast.expr) -> ast.expr:
        """Hoisted constants: a name bound once to a literal (outside the role names of this scope)."""
        if isinstance(e, ast.Name) and e.id not in self.loopnames:
            return _lit(e, self.fi) or e
        return e

    def stmt_facts(self, st: ast.AST, extra: list[tuple[ast.expr, bool]]) -> list[tuple]:
        out: list[tuple] = []
        if self.cfg is not None and isinstance(st, ast.stmt):
            out += [self.classify(t, pol) for t, pol in self.cfg.guards(st)]
        for test, pol in extra:
            out += [self.classify(t, p) for t, p in flow_facts(test, pol)]
        return _flat(out)

    def _helper(self, call: ast.expr) -> FunctionInfo | None:
        if not isinstance(call, ast.Call) or self.depth >= 2 or self.resolver is None:
            return None
        try:
            targets = self.resolver(call, self.fi)
        except Exception:
            return None
        if len(targets) != 1 or targets[0].is_lambda or targets[0].fq == self.fi.fq:
            return None
        return targets[0]

    def _bind_params(self, call: ast.Call, h: FunctionInfo) -> dict[str, str] | None:
        """helper parameter -> the plain name passed for it (None if the call is not that simple)."""
        params = [p for p in h.params if p not in ("self", "cls")] if h.cls is not None else list(h.params)
        if any(isinstance(a, ast.Starred) for a in call.args) or any(k.arg is None for k in call.keywords) or len(call.args) > len(params):
            return None
        bound: dict[str, str] = {}
        for p, a in list(zip(params, call.args)) + [(k.arg, k.value) for k in call.keywords]:
            if not isinstance(a, ast.Name) or p not in params:
                return None
            bound[p] = a.id  # type: ignore[index]
        return bound

    def _sub_scope(self, call: ast.Call, h: FunctionInfo) -> "_Forms | None":
        bound = self._bind_params(call, h)
        if bound is None:
            return None
        inv = {v: k for k, v in bound.items()}
        if self.entry not in inv or len(inv) != len(bound):
            return None
        if not set(bound.values()) <= {self.entry, self.p_type, self.p_sub, self.p_list}:
            return None
        closure = h.parent_func is not None and h.parent_func.fq == self.fi.fq
        rebound = set(h.params) | {n.id for n in h.local_nodes() if isinstance(n, ast.Name) and isinstance(n.ctx, ast.Store)}

        def role(p: str, none: str) -> str:
            if p in inv:
                return inv[p]
            return p if closure and p not in rebound else none  # a nested function still sees the enclosing name

        sub = _Forms(h, list(h.node.body), inv[self.entry], role(self.p_type, "\0type"), role(self.p_sub, "\0sub"), role(self.p_list, "\0list"), self.resolver, prefix=f"{self.prefix}{h.name}:", depth=self.depth + 1)
        for r in (n for n in h.local_nodes() if isinstance(n, ast.Return) and n.value is not None):
            if isinstance(r.value, ast.Tuple) or isinstance(r.value, ast.IfExp) or sub.is_split(r.value):
                sub._bind(r, ast.Tuple(elts=[ast.Name(id=sub.RET[0], ctx=ast.Store()), ast.Name(id=sub.RET[1], ctx=ast.Store())], ctx=ast.Store()), r.value, [])
        sub.finish()
        return sub

    def _absorb(self, sub: "_Forms") -> None:
        for k, v in sub.heads.items():
            self.heads.setdefault(k, set()).update(v)
        for k, v in sub.tails.items():
            self.tails.setdefault(k, set()).update(v)
        self.unknown |= sub.unknown
        self.split_sites += sub.split_sites
        self.split_calls += sub.split_calls
        self.partition_calls += sub.partition_calls
        self.partition_tails |= sub.partition_tails
        self.saw_whole = self.saw_whole or sub.saw_whole

    def _bind(self, st: ast.AST, tgt: ast.expr, val: ast.expr, extra: list[tuple[ast.expr, bool]]) -> None:
        if isinstance(val, ast.IfExp):  # a conditional expression is a branch
            self._bind(st, tgt, val.body, extra + [(val.test, True)])
            self._bind(st, tgt, val.orelse, extra + [(val.test, False)])
            return
        px = self.prefix
        if isinstance(tgt, (ast.Tuple, ast.List)) and len(tgt.elts) == 3 and all(isinstance(x, ast.Name) for x in tgt.elts) and self.is_partition(val):
            # head, _, tail = entry.partition("."): never raises; an entry without a dot gives (entry, "", "")
            a, b = px + tgt.elts[0].id, px + tgt.elts[2].id  # type: ignore[union-attr]
            self.heads.setdefault(a, set()).update({"split", "bare"})
            self.tails.setdefault(b, set()).update({"split", ("const", "")})
            self.partition_tails.add(b)
            self.partition_seps.add(tgt.elts[1].id)  # type: ignore[union-attr]  # '.' if the entry has a dot, else ''
            return
        if isinstance(tgt, (ast.Tuple, ast.List)) and len(tgt.elts) == 2 and all(isinstance(x, ast.Name) for x in tgt.elts):
            a, b = px + tgt.elts[0].id, px + tgt.elts[1].id  # type: ignore[union-attr]
            if self.is_split(val):
                self.heads.setdefault(a, set()).add("split")
                self.tails.setdefault(b, set()).add("split")
                self.split_sites.append((st, self.fi, self.stmt_facts(st, extra)))
                return
            if isinstance(val, (ast.Tuple, ast.List)) and len(val.elts) == 2:
                self._single(st, a, val.elts[0], extra)
                self._single(st, b, val.elts[1], extra)
                return
            h = self._helper(val)
            if h is not None:
                sub = self._sub_scope(val, h)  # type: ignore[arg-type]
                if sub is not None and set((self._bind_params(val, h) or {}).values()) == {self.entry}:  # type: ignore[arg-type]
                    # the split runs inside the helper under the helper's own conditions AND the ones here
                    here = self.stmt_facts(st, extra)
                    sub.split_sites = [(n, f, fs + here) for n, f, fs in sub.split_sites]
                    self._absorb(sub)
                    self.aliases.append((a, sub.prefix + sub.RET[0]))
                    self.aliases.append((b, sub.prefix + sub.RET[1]))
                    return
            self.unknown |= {a, b}
        elif isinstance(tgt, ast.Name):
            self._single(st, px + tgt.id, val, extra)
        else:
            self.unknown |= {px + x.id for x in ast.walk(tgt) if isinstance(x, ast.Name)}

    def _single(self, st: ast.AST, name: str, val: ast.expr, extra: list[tuple[ast.expr, bool]]) -> None:
        if isinstance(val, ast.IfExp):
            self._single(st, name, val.body, extra + [(val.test, True)])
            self._single(st, name, val.orelse, extra + [(val.test, False)])
        elif _is_name(val, self.entry):
            self.heads.setdefault(name, set()).add("bare")
        elif isinstance(self.lit(val), ast.Constant):
            val = self.lit(val)
            self.tails.setdefault(name, set()).add(("const", val.value))
        elif isinstance(val, ast.Subscript) and self.is_partition(val.value) and isinstance(val.slice, ast.Constant) and val.slice.value in (0, 2):
            if val.slice.value == 0:
                self.heads.setdefault(name, set()).update({"split", "bare"})
            else:
                self.tails.setdefault(name, set()).update({"split", ("const", "")})
                self.partition_tails.add(name)
        elif isinstance(val, ast.Subscript) and self.is_split(val.value) and isinstance(val.slice, ast.Constant) and val.slice.value in (0, 1):
            (self.heads if val.slice.value == 0 else self.tails).setdefault(name, set()).add("split")
            if val.slice.value == 1:
                self.split_sites.append((st, self.fi, self.stmt_facts(st, extra)))
        elif isinstance(val, ast.BoolOp) and isinstance(val.op, ast.Or) and len(val.values) == 2 and isinstance(val.values[0], ast.Name) and (self.prefix + val.values[0].id) in self.partition_tails and isinstance(self.lit(val.values[1]), ast.Constant):
            # `rest or None`: the text after the dot, or the sentinel when there is none
            self.tails.setdefault(name, set()).update({"split", ("const", self.lit(val.values[1]).value)})
        elif isinstance(val, ast.Name) and (self.prefix + val.id) in self.partition_tails:
            # a copy of partition's third item: under `if <sep>` it is the text after the dot, under `if not <sep>` it is ''
            dots = {f[1] for f in self.stmt_facts(st, extra) if f[0] == "dot"}
            if dots == {True}:
                self.tails.setdefault(name, set()).add("split")
            elif dots == {False}:
                self.tails.setdefault(name, set()).add(("const", ""))
                self.partition_tails.add(name)
            else:
                self.aliases.append((name, self.prefix + val.id))
                self.partition_tails.add(name)
        elif isinstance(val, ast.Name):
            self.aliases.append((name, self.prefix + val.id))
        else:
            self.unknown.add(name)

    # -- facts ------------------------------------------------------------------------------
    def tail_values(self, e: ast.expr) -> tuple[str, set[str], bool] | None:
        """(name, accepted value texts, negated) for a test of a loop name against values."""
        if isinstance(e, ast.BoolOp) and isinstance(e.op, ast.Or):
            parts = [self.tail_values(v) for v in e.values]
            if all(p is not None and not p[2] for p in parts) and len({p[0] for p in parts}) == 1:  # type: ignore[index]
                return parts[0][0], set().union(*[p[1] for p in parts]), False  # type: ignore[index]
            return None
        core, flip = _strip_not(e)
        if isinstance(core, ast.Name) and core.id in self.loopnames and core.id != self.entry and (self.prefix + core.id) in self.tails:
            # `not tail`: the part after the dot is empty or None; plain `tail`: it is neither
            return self.prefix + core.id, {"''", "None"}, not flip
        if not (isinstance(e, ast.Compare) and len(e.ops) == 1 and isinstance(e.left, ast.Name) and e.left.id in self.loopnames and e.left.id != self.entry):
            return None
        op, right = e.ops[0], e.comparators[0]

        def vr(x: ast.expr) -> str | None:
            if _is_name(x, self.p_sub):
                return "<subtype>"
            if _is_name(x, self.p_type):
                return "<type>"
            x = self.lit(x)
            return repr(x.value) if isinstance(x, ast.Constant) else None  # any other name: not understood

        if not (_is_name(right, self.p_sub) or _is_name(right, self.p_type)):
            right = self.lit(right)
        if isinstance(right, ast.Call) and dotted(right.func) == "frozenset" and len(right.args) == 1:
            right = right.args[0]
        if isinstance(op, (ast.In, ast.NotIn)) and isinstance(right, (ast.Tuple, ast.List, ast.Set)):
            vals = {vr(x) for x in right.elts}
            return None if None in vals else (self.prefix + e.left.id, vals, isinstance(op, ast.NotIn))  # type: ignore[return-value]
        if isinstance(op, (ast.Is, ast.Eq, ast.IsNot, ast.NotEq)) and isinstance(right, (ast.Constant, ast.Name)):
            v = vr(right)
            return None if v is None else (self.prefix + e.left.id, {v}, isinstance(op, (ast.IsNot, ast.NotEq)))
        return None

    def _predicate(self, call: ast.Call, pol: bool) -> tuple | None:
        """``_matches(entry, type, subtype)``: follow a predicate helper; facts that hold when it is true."""
        if id(call) in self._pred_cache:
            got = self._pred_cache[id(call)]
        else:
            got = ()
            h = self._helper(call)
            sub = self._sub_scope(call, h) if h is not None else None
            if sub is not None and h is not None:
                rets = [n for n in h.local_nodes() if isinstance(n, ast.Return)]
                can = [r for r in rets if not (r.value is None or is_const(r.value, None) or is_const(r.value, False))]
                if len(can) == 1:
                    r = can[0]
                    fs = sub.stmt_facts(r, [] if is_const(r.value, True) else [(r.value, True)])
                    self._absorb(sub)
                    got = ("and", fs)
            self._pred_cache[id(call)] = got
        if not got:
            return None
        return got if pol else ("loop-unknown", f"not {unparse(call)}")

    def _covers(self, e: ast.expr, depth: int = 0) -> str:
        """_covers_list, also through a local bound once (``suppressed = frozenset(suppress_warnings)``)."""
        if isinstance(e, ast.Name) and e.id != self.p_list and depth < 3 and not self.fi.is_lambda:
            stores = [n for n in self.fi.local_nodes() if isinstance(n, ast.Name) and n.id == e.id and isinstance(n.ctx, ast.Store)]
            if len(stores) == 1 and isinstance(parent(stores[0]), ast.Assign) and len(parent(stores[0]).targets) == 1:
                return self._covers(parent(stores[0]).value, depth + 1)
            return "unknown"
        if isinstance(e, ast.Call) and isinstance(e.func, ast.Name) and e.func.id in _WHOLE_WRAPPERS and len(e.args) == 1:
            return self._covers(e.args[0], depth + 1)
        return _covers_list(e, self.p_list)

    def _whole_form(self, e: ast.expr) -> str | None:
        """``type`` / ``f"{type}.{subtype}"`` / ``f"{type}.*"`` (also with +): the three accepted entries, spelled out."""
        def parts(x: ast.expr) -> list | None:
            x = self.lit(x) if isinstance(x, ast.Name) and x.id not in (self.p_type, self.p_sub) else x
            if isinstance(x, ast.Name):
                return [("v", x.id)]
            if isinstance(x, ast.Constant) and isinstance(x.value, str):
                return [x.value]
            if isinstance(x, ast.JoinedStr):
                out: list = []
                for v in x.values:
                    if isinstance(v, ast.Constant):
                        out.append(v.value)
                    elif isinstance(v, ast.FormattedValue) and v.conversion in (-1, 115) and v.format_spec is None and isinstance(v.value, ast.Name):
                        out.append(("v", v.value.id))
                    else:
                        return None
                return out
            if isinstance(x, ast.BinOp) and isinstance(x.op, ast.Add):
                a, b = parts(x.left), parts(x.right)
                return None if a is None or b is None else a + b
            return None

        p = parts(e)
        if p is None:
            return None
        p = _merge_text(p)
        T, S = ("v", self.p_type), ("v", self.p_sub)
        return {(T,): "bare", (T, ".", S): "sub", (T, ".*"): "star"}.get(tuple(p))

    def _whole(self, test: ast.expr) -> tuple[set[str], bool] | None:
        """The whole entry compared with spelled-out forms -> (forms, negated)."""
        if not (isinstance(test, ast.Compare) and len(test.ops) == 1):
            return None
        op, l, r = test.ops[0], test.left, test.comparators[0]
        if isinstance(op, (ast.Eq, ast.NotEq)):
            for x, y in ((l, r), (r, l)):
                if _is_name(x, self.entry):
                    f = self._whole_form(y)
                    if f is not None:
                        return {f}, isinstance(op, ast.NotEq)
        if isinstance(op, (ast.In, ast.NotIn)) and _is_name(l, self.entry):
            r = self.lit(r) if isinstance(r, ast.Name) else r
            if isinstance(r, ast.Name) and r.id not in self.loopnames:  # a local bound once to the tuple of forms
                f = self.fi
                while f is not None and isinstance(r, ast.Name):
                    stores = [n for n in f.local_nodes() if isinstance(n, ast.Name) and n.id == r.id and isinstance(n.ctx, ast.Store)] if not f.is_lambda else []
                    if len(stores) == 1 and isinstance(parent(stores[0]), ast.Assign) and len(parent(stores[0]).targets) == 1:
                        r = parent(stores[0]).value
                        break
                    if stores:
                        break
                    f = f.parent_func
            if isinstance(r, (ast.Tuple, ast.List, ast.Set)) and r.elts:
                forms = [self._whole_form(x) for x in r.elts]
                if all(f is not None for f in forms):
                    return set(forms), isinstance(op, ast.NotIn)  # type: ignore[arg-type]
        return None

    def _loose(self, test: ast.expr) -> tuple[str, str, str] | None:
        """A prefix / suffix / substring comparison between a part of the entry and the warning's type or subtype:
        a near-synonym of equality that accepts more (or other) entries.  -> (kind, entry part name, description)"""
        pair = None
        if isinstance(test, ast.Compare) and len(test.ops) == 1 and isinstance(test.ops[0], (ast.In, ast.NotIn)) and isinstance(test.left, ast.Name) and isinstance(test.comparators[0], ast.Name):
            pair = (test.left.id, test.comparators[0].id, "substring test (`in`)")
        elif isinstance(test, ast.Call) and isinstance(test.func, ast.Attribute) and test.func.attr in ("startswith", "endswith", "find", "count", "__contains__") and isinstance(test.func.value, ast.Name) and len(test.args) == 1 and isinstance(test.args[0], ast.Name):
            pair = (test.func.value.id, test.args[0].id, f".{test.func.attr}()")
        if pair is None:
            return None
        a, b, how = pair
        for part, param in ((a, b), (b, a)):
            if part in self.loopnames and part != self.entry and param in (self.p_type, self.p_sub):
                return ("type-loose" if param == self.p_type else "sub-loose"), part, how
        return None

    def classify(self, test: ast.expr, pol: bool) -> tuple:
        """One branch fact -> (kind, ...):
        ("type", name, holds) name ==/!= warning type; ("sub", name, values, holds); ("dot", holds) '.' in entry;
        ("member", forms, holds) a spelled-out form is looked up in the whole suppress list; ("harmless", why); ("harmless-entry", why);
        ("or", [facts]) a disjunction; ("and", [facts]) a conjunction (from a followed helper);
        ("loop-unknown", text) / ("inv-unknown", text)."""
        core, flip = _strip_not(test)
        if flip:
            return self.classify(core, not pol)
        names = _names(test)
        px = self.prefix
        if isinstance(test, ast.BoolOp):
            if isinstance(test.op, ast.Or) and pol:
                tv = self.tail_values(test)
                if tv is not None:
                    return ("sub", tv[0], tv[1], True)
            if isinstance(test.op, ast.Or) == pol:  # Or/True, And/False: a disjunction
                return ("or", [self.classify(v, pol) for v in test.values])
            return ("and", [self.classify(v, pol) for v in test.values])
        if isinstance(test, ast.Compare) and len(test.ops) == 1 and isinstance(test.ops[0], (ast.Eq, ast.NotEq)):
            l, r = test.left, test.comparators[0]
            for x, y in ((l, r), (r, l)):
                if _is_name(x, self.p_type) and isinstance(y, ast.Name) and y.id in self.loopnames and y.id != self.entry:
                    return ("type", px + y.id, pol == isinstance(test.ops[0], ast.Eq))
        if isinstance(test, ast.Compare) and len(test.ops) == 1 and isinstance(test.ops[0], (ast.In, ast.NotIn)):
            if is_const(self.lit(test.left), ".") and _is_name(test.comparators[0], self.entry):
                return ("dot", pol == isinstance(test.ops[0], ast.In))
            form = self._whole_form(test.left)
            if form is not None and self._covers(test.comparators[0]) == "whole":
                # set / list look-up: `type in suppressed`, `f"{type}.{subtype}" in suppressed`, `f"{type}.*" in suppressed`
                self.saw_whole = True
                return ("member", {form}, pol == isinstance(test.ops[0], ast.In))
        if isinstance(test, ast.Name) and test.id in self.partition_seps:
            return ("dot", pol)
        if isinstance(test, ast.Compare) and len(test.ops) == 1 and isinstance(test.left, ast.Name) and test.left.id in self.partition_seps and isinstance(test.ops[0], (ast.Eq, ast.NotEq)) and isinstance(self.lit(test.comparators[0]), ast.Constant) and self.lit(test.comparators[0]).value in (".", ""):
            return ("dot", (self.lit(test.comparators[0]).value == ".") == (pol == isinstance(test.ops[0], ast.Eq)))
        whole = self._whole(test)
        if whole is not None:
            self.saw_whole = True
            return ("whole", whole[0], pol != whole[1])
        loose = self._loose(test)
        if loose is not None:
            return (loose[0], px + loose[1], loose[2], pol)
        tv = self.tail_values(test)
        if tv is not None:
            name, vals, neg = tv
            return ("sub", name, vals, pol != neg)
        if names & self.loopnames:
            if _is_name(test, self.entry) and pol:
                return ("harmless-entry", "non-empty entry")
            if isinstance(test, ast.Call) and dotted(test.func) == "isinstance" and len(test.args) == 2 and _is_name(test.args[0], self.entry) and dotted(test.args[1]) == "str" and pol:
                return ("harmless-entry", "str entry")
            if isinstance(test, ast.Call):
                got = self._predicate(test, pol)
                if got is not None:
                    return got
            return ("loop-unknown", unparse(test))
        # loop-invariant
        if isinstance(test, ast.Compare) and len(test.ops) == 1 and isinstance(test.left, ast.Name) and test.left.id in (self.p_type, self.p_sub, self.p_list) and is_const(test.comparators[0], None) and isinstance(test.ops[0], (ast.Is, ast.IsNot, ast.Eq, ast.NotEq)):
            return ("harmless", "None test of a parameter (create_warning never passes None)")
        if isinstance(test, ast.Name) and test.id in (self.p_type, self.p_sub):
            return ("harmless", "truth value of a parameter (create_warning never passes None or an empty string)")
        if names and names <= {self.p_list, "len"}:
            return ("harmless", "emptiness of the suppress list")
        return ("inv-unknown", unparse(test))


def _flat(fs: list[tuple]) -> list[tuple]:
    out: list[tuple] = []
    for f in fs:
        if f[0] == "and":
            out += _flat(f[1])
        else:
            out.append(f)
    return out


def _f_unknown(f: tuple) -> bool:
    return f[0] in ("loop-unknown", "inv-unknown") or (f[0] in ("or", "and") and any(_f_unknown(x) for x in f[1]))


def _f_loopdep(f: tuple) -> bool:
    return f[0] in ("type", "sub", "dot", "whole", "member", "loop-unknown", "harmless-entry", "type-loose", "sub-loose") or (f[0] in ("or", "and") and any(_f_loopdep(x) for x in f[1]))


def _f_implies(f: tuple, kind: str) -> bool:
    if f[0] == "and":
        return any(_f_implies(x, kind) for x in f[1])
    return (f[0] == kind and f[-1] is True) or (f[0] == "or" and bool(f[1]) and all(_f_implies(x, kind) for x in f[1]))


def _f_text(f: tuple) -> str:
    if f[0] in ("or", "and"):
        return f" {f[0]} ".join(_f_text(x) for x in f[1])
    return str(f[1]) if f[0].endswith("unknown") else f[0]


def _check_forms(isw: FunctionInfo, rep: Report, dotfree: bool, resolver=None) -> None:
    R = "C14.R4"
    params = isw.params
    if len(params) < 3:
        rep.error(R, "_is_suppressed_warning signature changed")
        return
    p_type, p_sub, p_list = params[:3]
    kf = f"{isw.fq}|accepted forms"
    kc = f"{isw.fq}|every entry consulted"
    site = isw.site()
    msite = isw.module.site
    cfg = get_cfg(isw)
    viol: list[tuple[str, str, str]] = []
    unsup: list[str] = []

    # the scan of the suppress list: a for loop, or `return any(<match> for <entry> in <suppress list>)`
    loops = [n for n in isw.local_nodes() if isinstance(n, ast.For) and p_list in _names(n.iter)]
    def is_scan_call(v: ast.expr | None) -> bool:
        if not (isinstance(v, ast.Call) and not v.keywords and v.args and isinstance(v.args[0], (ast.GeneratorExp, ast.ListComp)) and len(v.args[0].generators) == 1 and p_list in _names(v.args[0].generators[0].iter)):
            return False
        if dotted(v.func) == "any" and len(v.args) == 1:
            return True
        # next((True for e in L if <match>), False): the first match answers True, exhaustion answers False
        return dotted(v.func) == "next" and len(v.args) == 2 and isinstance(v.args[0], ast.GeneratorExp) and is_const(v.args[0].elt, True) and is_const(v.args[1], False) and bool(v.args[0].generators[0].ifs)

    gens = [n for n in isw.local_nodes() if isinstance(n, ast.Return) and is_scan_call(n.value)]
    loop: ast.For | None = None
    gen_ret: ast.Return | None = None
    if len(loops) == 1 and not gens and isinstance(loops[0].target, ast.Name):
        loop = loops[0]
        it, entry, body = loop.iter, loop.target.id, list(loop.body)
        scan_site = msite(loop)
    elif len(gens) == 1 and not loops and isinstance(gens[0].value.args[0].generators[0].target, ast.Name):  # type: ignore[union-attr]
        gen_ret = gens[0]
        comp = gen_ret.value.args[0].generators[0]  # type: ignore[union-attr]
        it, entry, body = comp.iter, comp.target.id, [gen_ret.value]
        scan_site = msite(gen_ret)
    elif not loops and not gens:
        # no scan: the answer may be computed by look-ups of the spelled-out forms in the whole list (decided below)
        it, entry, body, scan_site = None, "\0entry", [], site
    else:
        rep.error(R, f"_is_suppressed_warning: expected one `for <entry> in <suppress list>` loop or one `return any(... for <entry> in <suppress list>)`, found {len(loops)} / {len(gens)} (rewritten in an unknown idiom)")
        return
    cover = _covers_list(it, p_list) if it is not None else "whole"
    if cover == "part":
        viol.append((kc + "|loop range", scan_site, f"the scan ranges over `{unparse(it)}`, a part of the suppress list: the other entries are never consulted"))
    elif cover == "unknown":
        unsup.append(f"cannot decide whether `{unparse(it)}` visits every entry of the suppress list")
    fm = _Forms(isw, body, entry, p_type, p_sub, p_list, resolver)

    def in_body(n: ast.AST) -> bool:
        return id(n) in fm.body_nodes

    def guard_facts(st: ast.stmt) -> list[tuple]:
        return _flat([fm.classify(t, pol) for t, pol in cfg.guards(st)])

    # classify every condition first: followed helpers contribute their roles and split sites
    rets = [n for n in isw.local_nodes() if isinstance(n, ast.Return)]
    ret_facts = {id(r): guard_facts(r) for r in rets}
    for r in rets:  # a computed answer (`return a in S or b in S`): classify it now, so look-ups are known below
        if r.value is not None and not isinstance(r.value, ast.Constant) and not in_body(r):
            for tt, pp in flow_facts(r.value, True):
                fm.classify(tt, pp)
    gen_facts: list[tuple] = []
    if gen_ret is not None:
        g0 = gen_ret.value.args[0]  # type: ignore[union-attr]
        gen_facts = ret_facts[id(gen_ret)] + fm.stmt_facts(gen_ret, ([] if is_const(g0.elt, True) else [(g0.elt, True)]) + [(c, True) for c in g0.generators[0].ifs])
    fm.finish()

    # the split: on the first dot only, and only when there is a dot
    if not fm.split_calls and not fm.partition_calls and not fm.saw_whole:
        unsup.append("no `<entry>.split('.', 1)` / `<entry>.partition('.')` found (entry decomposed in an unknown idiom)")
    for c, cfi in fm.partition_calls:
        if not is_const(_lit(c.args[0], cfi), "."):
            viol.append((kf + "|split", cfi.module.site(c), f"the entry is partitioned on {unparse(c.args[0])}, not on '.'"))
    for c, cfi in fm.split_calls:
        sep, mx = _lit(arg_or_kw(c, 0, "sep"), cfi), _lit(arg_or_kw(c, 1, "maxsplit"), cfi)
        if not is_const(sep, "."):
            viol.append((kf + "|split", cfi.module.site(c), f"the entry is split on {unparse(sep) if sep is not None else 'whitespace'}, not on '.'"))
        elif not is_const(mx, 1):
            viol.append((kf + "|split", cfi.module.site(c), "the entry is not split on the first dot only (maxsplit=1): an entry with two dots cannot be unpacked into (type, subtype)"))
        elif c.func.attr == "rsplit" and not dotfree:  # type: ignore[union-attr]
            viol.append((kf + "|split", cfi.module.site(c), "the entry is split on the last dot although catalogue tags contain dots"))
    for st, sfi, fs in fm.split_sites:
        dots = [f for f in fs if f[0] == "dot"]
        if any(f[1] for f in dots):
            continue
        if dots:
            viol.append((kf + "|bare type", sfi.module.site(st), "the second part of the split is taken when the entry has NO dot: a bare type entry raises (ValueError/IndexError) instead of matching"))
        elif any(isinstance(a, (ast.Try, ast.Match)) for a in ancestors(st)) or any(_f_unknown(f) for f in fs):
            unsup.append(f"cannot decide whether `{short(st, 50)}` only runs for entries with a dot")
        else:
            viol.append((kf + "|bare type", sfi.module.site(st), "the second part of the split is taken without a `'.' in entry` guard: a bare type entry raises (ValueError/IndexError) instead of matching"))

    # exits
    breaks = [n for n in isw.local_nodes() if isinstance(n, ast.Break) and in_body(n) and next((a for a in ancestors(n) if isinstance(a, (ast.For, ast.While))), None) is loop]

    def rkind(r: ast.Return) -> str:
        if r.value is None or is_const(r.value, None) or is_const(r.value, False):
            return "neg"
        if is_const(r.value, True):
            return "pos"
        return "expr"

    def reachable_without(r: ast.stmt, kind: str) -> bool:
        """Is there a path to ``r`` (from the start of an iteration / of the function) on which every branch
        taken is understood and none of them establishes the fact ``kind``?"""
        if r is gen_ret:
            return True  # all conditions of the generator are in the fact list itself

        def blocks(n) -> bool:
            if not (isinstance(n, tuple) and n[0] in ("T", "F") and isinstance(n[1], (ast.If, ast.While))):
                return False
            fs = [fm.classify(t, pol) for t, pol in flow_facts(n[1].test, n[0] == "T")]
            return any(_f_unknown(f) or _f_implies(f, kind) for f in fs)

        return cfg.paths_avoiding(("T", loop) if in_body(r) else "ENTRY", r, blocks)

    covered: set[str] = set()  # accepted forms established by the positive answers: bare / sub / star
    judged: list[ast.Return] = []
    lookups: list[ast.Return] = []  # positive answers by look-up of a spelled-out form (no scan needed)

    def judge_positive(r: ast.Return, fs: list[tuple], scanning: bool) -> None:
        """A positive answer under the facts ``fs``; a disjunctive condition is a case split: every alternative is judged."""
        unknown_f = [f for f in fs if _f_unknown(f)]
        if unknown_f:
            unsup.append(f"positive answer under condition(s) not understood: {'; '.join(_f_text(f) for f in unknown_f)[:120]}")
            return
        alts: list[list[tuple]] = [[]]
        for f in fs:
            if f[0] == "or":
                alts = [a + _flat([x]) for a in alts for x in f[1]]
            else:
                alts = [a + [f] for a in alts]
            if len(alts) > 16:
                unsup.append("positive answer under too many alternative conditions (not understood)")
                return
        if any(x[0] == "or" for a in alts for x in a):
            unsup.append("positive answer under nested alternative conditions (not understood)")
            return
        for a in alts:
            judge_alternative(r, a, scanning)

    def judge_alternative(r: ast.Return, fs: list[tuple], scanning: bool) -> None:
        """One conjunction of facts under which the answer is positive: which of the three forms does it accept?"""
        members = [f for f in fs if f[0] == "member" and f[2]]
        if members and not scanning:
            # `type in suppressed`, `f"{type}.{subtype}" in suppressed`, ...: a look-up of a spelled-out form in the whole list
            covered.update(set.intersection(*[set(f[1]) for f in members]))
            lookups.append(r)
            return
        wholes = [f for f in fs if f[0] == "whole" and f[2]]
        if wholes:
            # `entry == type`, `entry == f"{type}.{subtype}"`, `entry in (type, f"{type}.*", ...)`: forms spelled out
            covered.update(set.intersection(*[set(f[1]) for f in wholes]))
            judged.append(r)
            return
        dots = {f[1] for f in fs if f[0] == "dot"}
        if len(dots) == 2:
            return  # contradictory: dead code
        case = None if not dots else ("dotted" if True in dots else "bare")  # entries this answer is given for
        types = [f for f in fs if f[0] == "type" and f[2]]
        subs = [f for f in fs if f[0] == "sub" and f[3]]
        loose_t = [f for f in fs if f[0] == "type-loose" and f[-1]]
        loose_s = [f for f in fs if f[0] == "sub-loose" and f[-1]]
        if not types:
            if loose_t:
                viol.append((kf + "|type", msite(r), f"the entry's type part `{loose_t[0][1]}` is compared with the warning's type by a {loose_t[0][2]}, not by equality: an entry that is only a part of the type (or contains it) suppresses the warning"))
            elif reachable_without(r, "type"):
                viol.append((kf + "|type", msite(r), "a positive answer is given without comparing the entry's type part with the warning's type: entries of another type suppress the warning"))
            else:
                unsup.append("positive answer: the type comparison does not dominate it (merged paths not understood)")
            return
        if not subs and case != "bare":
            if loose_s:
                viol.append((kf + "|sub-target", msite(r), f"the part after the dot `{loose_s[0][1]}` is compared with the warning's subtype by a {loose_s[0][2]}, not by equality: `type.sub` also suppresses other subtypes"))
            elif reachable_without(r, "sub"):
                viol.append((kf + "|sub-target", msite(r), "a positive answer is given without testing the part after the dot: `type.other_subtype` suppresses every warning of the type"))
            else:
                unsup.append("positive answer: the sub-target test does not dominate it (merged paths not understood)")
            return
        need = {"dotted": {"split"}, "bare": {"bare"}, None: {"split", "bare"}}[case]
        bad_here = False
        for _, h, _pol in types:
            roles_h = fm.heads.get(h, set()) | ({"bare"} if h == fm.entry else set())
            if h in fm.tails:
                viol.append((kf + "|roles", msite(r), f"`{h}`, compared with the warning type, holds the part AFTER the dot (or the bare-entry sentinel) on some path: type.subtype entries no longer match"))
                bad_here = True
            elif h in fm.unknown or not need <= roles_h:
                unsup.append(f"cannot derive `{h}` as the entry's type part on {'both the dotted and the bare path' if case is None else 'the ' + case + ' path'}")
                bad_here = True
        here: set[str] = {"bare"} if case == "bare" and not subs else set()
        for _, t, vals, _pol in subs:
            roles_t = fm.tails.get(t, set())
            consts = {x[1] for x in roles_t if isinstance(x, tuple)}
            if t in fm.heads or t == fm.entry:
                if not any(f[1] in fm.tails for f in types):
                    viol.append((kf + "|roles", msite(r), f"`{t}`, tested against the accepted sub-targets, holds the part BEFORE the dot on some path"))
                bad_here = True
                continue
            if t in fm.unknown or (case != "bare" and "split" not in roles_t) or (case != "dotted" and not consts):
                unsup.append(f"cannot derive `{t}` as the part after the dot / the bare-entry sentinel")
                bad_here = True
                continue
            sent = {repr(c) for c in consts}
            extra_vals = vals - sent - {"<subtype>", "'*'"} - ({"None", "''"} if t in fm.partition_tails else set())
            if extra_vals:
                viol.append((kf + "|sub-target values", msite(r), f"sub-target is compared with {sorted(vals)}, expected {{None, <subtype>, '*'}}: additional sub-targets {sorted(extra_vals)} are accepted"))
                bad_here = True
                continue
            if consts and not consts <= ({None, ""} if t in fm.partition_tails else {None}) and case != "dotted":
                if sent <= vals:
                    unsup.append(f"bare-entry sentinel {sorted(sent)} instead of None (not understood)")
                    bad_here = True
                    continue
            if case != "dotted" and sent and sent <= vals:
                here.add("bare")
            if case != "bare":
                if "<subtype>" in vals:
                    here.add("sub")
                if "'*'" in vals:
                    here.add("star")
        if not bad_here:
            covered.update(here)
            judged.append(r)

    for r in rets:
        kind = rkind(r)
        fs = ret_facts[id(r)]
        unknown_f = [f for f in fs if _f_unknown(f)]
        if r is gen_ret:
            if any(f[0] != "harmless" for f in fs):
                unsup.append(f"the scan `{short(r, 40)}` runs under condition(s) not understood: {'; '.join(_f_text(f) for f in fs if f[0] != 'harmless')[:100]}")
            else:
                judge_positive(r, [f for f in gen_facts if f[0] != "harmless"], True)
            continue
        if kind == "pos":
            if in_body(r):
                judge_positive(r, fs, True)
            else:
                n_before = len(judged)
                judge_positive(r, fs, False)
                del judged[n_before:]  # an answer outside the scan establishes no form of its own
            continue
        # a negative (or not constantly positive) answer
        if not in_body(r):
            if kind == "expr":
                vfacts = _flat([fm.classify(tt, pp) for tt, pp in flow_facts(r.value, True)])
                if vfacts and all(f[0] == "member" or (f[0] == "or" and f[1] and all(x[0] == "member" for x in f[1])) for f in vfacts) and not any(f[0] not in ("harmless", "member") for f in fs):
                    judge_positive(r, [f for f in fs if f[0] != "harmless"] + vfacts, False)  # `return a in S or b in S`
                else:
                    unsup.append(f"`{short(r, 50)}` outside the loop: answer computed in an unknown idiom")
            elif any(f[0] not in ("harmless", "member") for f in fs):
                unsup.append(f"negative answer outside the loop under condition(s) not understood: {'; '.join(_f_text(f) for f in fs if f[0] not in ('harmless', 'member'))[:100]}")
            continue
        val_names = _names(r.value) if r.value is not None else set()
        k = f"{kc}|{short(r, 60)}"
        if not fs or any(_f_loopdep(f) for f in fs) or (val_names & fm.loopnames):
            what = "a negative answer" if kind == "neg" else f"the answer `{short(r.value, 40)}` (negative for a non-matching entry)"
            cond = "for the first entry that reaches it" if not fs else "under a condition on the current entry"
            viol.append((k, msite(r), f"{what} is returned from inside the loop over the suppress list {cond}: the entries after it are never consulted, so a tag listed later no longer suppresses its warnings"))
        elif unknown_f or kind == "expr":
            unsup.append(f"`{short(r, 40)}` inside the loop under loop-invariant condition(s) not understood: {'; '.join(_f_text(f) for f in unknown_f)[:100]}")
    # the positive answers together must accept the three forms
    if it is None and not lookups and not viol and not unsup:
        unsup.append("neither a scan of the suppress list (`for <entry> in <suppress list>` / `any(...)`) nor look-ups of the spelled-out forms found (rewritten in an unknown idiom)")
    if (judged or lookups) and not unsup:
        last = (judged or lookups)[-1]
        if "bare" not in covered:
            viol.append((kf + "|bare type", msite(last), "no positive answer accepts an entry without a dot (the sub-target a bare entry gets is not among the accepted values): the bare type no longer suppresses"))
        if "sub" not in covered:
            viol.append((kf + "|sub-target values|subtype form", msite(last), "no positive answer accepts `<subtype>` as the part after the dot: the `type.subtype` form is no longer accepted"))
        if "star" not in covered:
            viol.append((kf + "|sub-target values|star form", msite(last), "no positive answer accepts '*' as the part after the dot: the `type.*` form is no longer accepted"))
    positives_ok = len(judged) + len(lookups)
    for b in breaks:
        fs = guard_facts(b)
        after_neg = all(rkind(r) == "neg" for r in rets if not in_body(r))
        if not after_neg:
            unsup.append("`break` out of the loop with a computed answer after it (flag idiom not understood)")
        elif not fs or any(_f_loopdep(f) for f in fs):
            viol.append((f"{kc}|break", msite(b), "the loop over the suppress list is left by `break` under a condition on the current entry and a negative answer follows: the entries after it are never consulted"))
        elif any(_f_unknown(f) for f in fs):
            unsup.append("`break` under a loop-invariant condition not understood")
    if not positives_ok and not viol and not unsup:
        unsup.append("no positive answer inside the scan (rewritten in an unknown idiom)")

    if viol:
        seen = set()
        for k, s, what in viol:
            if (k, what) not in seen:
                seen.add((k, what))
                rep.violation(R, k, s, ("suppression no longer accepts exactly bare type / type.subtype / type.*: " if k.startswith(kf) else "") + what)
        return
    if unsup:
        for m in dict.fromkeys(unsup):
            rep.error(R, "_is_suppressed_warning: " + m)
        return
    rep.ok(R, kf, site, "entry type part == type and part after the first dot in (None, subtype, '*'); split('.', 1) only when there is a dot")
    rep.ok(R, kc, site, "the scan visits the whole suppress list; no negative answer and no break inside it")


# -- R5 -----------------------------------------------------------------------------------


def _presence_test(e: ast.expr, var: str) -> int:
    """+1: true exactly when the node exists; -1: true exactly when it is None; 0: not a pure test of var."""
    core, flip = _strip_not(e)
    sign = 0
    if _is_name(core, var):
        sign = 1
    elif isinstance(core, ast.Compare) and len(core.ops) == 1 and _is_name(core.left, var) and is_const(core.comparators[0], None):
        if isinstance(core.ops[0], (ast.IsNot, ast.NotEq)):
            sign = 1
        elif isinstance(core.ops[0], (ast.Is, ast.Eq)):
            sign = -1
    return -sign if flip else sign


def _only_adds(stmts: list[ast.stmt], var: str) -> bool:
    """Every statement only puts ``var`` into a list."""
    if not stmts:
        return False
    for st in stmts:
        if isinstance(st, ast.Pass):
            continue
        if isinstance(st, ast.Expr) and isinstance(st.value, ast.Call) and isinstance(st.value.func, ast.Attribute):
            c = st.value
            if c.func.attr == "append" and len(c.args) == 1 and _is_name(c.args[0], var) and not c.keywords:
                continue
            if c.func.attr == "insert" and len(c.args) == 2 and _is_name(c.args[1], var):
                continue
            if c.func.attr == "extend" and len(c.args) == 1 and isinstance(c.args[0], (ast.List, ast.Tuple)) and all(_is_name(x, var) for x in c.args[0].elts):
                continue
        if isinstance(st, ast.AugAssign) and isinstance(st.op, ast.Add) and isinstance(st.value, (ast.List, ast.Tuple)) and all(_is_name(x, var) for x in st.value.elts):
            continue
        if isinstance(st, ast.Assign) and len(st.targets) == 1 and isinstance(st.targets[0], ast.Name) and isinstance(st.value, ast.BinOp) and isinstance(st.value.op, ast.Add):
            # out = [x] + out / out = out + [x]
            sides = [st.value.left, st.value.right]
            lst = [s for s in sides if isinstance(s, ast.List) and s.elts and all(_is_name(x, var) for x in s.elts)]
            same = [s for s in sides if _is_name(s, st.targets[0].id)]
            if len(lst) == 1 and len(same) == 1:
                continue
        return False
    return True


def _replace_or_remove(there: list[ast.stmt], absent: list[ast.stmt], var: str) -> bool:
    """``R.replace(old, x)`` when the node exists, ``R.remove(old)`` when it does not: ``old`` goes either way."""
    if len(there) != 1 or len(absent) != 1:
        return False
    a, b = there[0], absent[0]
    if not (isinstance(a, ast.Expr) and isinstance(a.value, ast.Call) and isinstance(a.value.func, ast.Attribute) and isinstance(b, ast.Expr) and isinstance(b.value, ast.Call) and isinstance(b.value.func, ast.Attribute)):
        return False
    ca, cb = a.value, b.value
    if ca.func.attr != "replace" or cb.func.attr != "remove" or len(ca.args) != 2 or len(cb.args) != 1 or ca.keywords or cb.keywords:
        return False
    return _is_name(ca.args[1], var) and unparse(ca.func.value) == unparse(cb.func.value) and unparse(ca.args[0]) == unparse(cb.args[0])


def _maybe_only_adds(stmts: list[ast.stmt], var: str) -> bool:
    """Not recognised as list insertion, but every statement works on ``var`` and none leaves the block."""
    if not stmts:
        return False
    for st in stmts:
        if any(isinstance(x, (ast.Return, ast.Continue, ast.Break, ast.Raise)) for x in ast.walk(st)):
            return False
        if not any(_is_name(x, var) for x in ast.walk(st)):
            return False
    return True


def _is_empty_seq(e: ast.expr) -> bool:
    return isinstance(e, (ast.List, ast.Tuple)) and not e.elts


def _presence_guarded(n: ast.Name, fi: FunctionInfo) -> bool:
    """Is this use only evaluated when the variable holds a node (not None)?"""
    var = n.id
    child: ast.AST = n
    for a in ancestors(n):
        if isinstance(a, ast.IfExp):
            s = _presence_test(a.test, var)
            if (s > 0 and child is a.body) or (s < 0 and child is a.orelse):
                return True
        if isinstance(a, ast.BoolOp) and isinstance(a.op, ast.And) and child in a.values:
            if any(_presence_test(v, var) > 0 for v in a.values[: a.values.index(child)]):  # type: ignore[arg-type]
                return True
        if isinstance(a, ast.stmt):
            break
        child = a
    if fi.is_lambda:
        return False
    try:
        cfg = get_cfg(fi)
        st = cfg.stmt_of(n)
        for test, pol in cfg.guards(st):
            s = _presence_test(test, var)
            if s and (s > 0) == pol:
                return True
    except Exception:
        return False
    return False


def _use_kind(n: ast.Name, fi: FunctionInfo, _depth: int = 0):
    """True if the use cannot influence anything but the presence of the node itself;
    a string (what depends on it) for a violation; None if the use is not understood."""
    var = n.id
    p = parent(n)
    # climb through a pure presence test (x / not x / x is None / x is not None)
    top: ast.AST = n
    while isinstance(parent(top), (ast.UnaryOp, ast.Compare)) and _presence_test(parent(top), var) != 0:  # type: ignore[arg-type]
        top = parent(top)  # type: ignore[assignment]
    tp = parent(top)
    if isinstance(p, ast.BoolOp) and isinstance(p.op, ast.Or) and len(p.values) == 2 and p.values[0] is n and _is_empty_seq(p.values[1]):
        return True  # `x or []`: the node or nothing
    if isinstance(tp, ast.IfExp) and tp.test is top:
        sign = _presence_test(tp.test, var)
        there, absent = (tp.body, tp.orelse) if sign > 0 else (tp.orelse, tp.body)
        if isinstance(there, ast.List) and there.elts and all(_is_name(e, var) for e in there.elts) and _is_empty_seq(absent):
            return True
        return "selects between two expressions"
    if isinstance(tp, (ast.If, ast.While)) and tp.test is top:
        if isinstance(tp, ast.If):
            sign = _presence_test(tp.test, var)
            there, absent = (tp.body, tp.orelse) if sign > 0 else (tp.orelse, tp.body)
            if _replace_or_remove(there, absent, var):
                return True
            if all(isinstance(s, ast.Pass) for s in absent):
                if _only_adds(there, var):
                    return True
                if _maybe_only_adds(there, var):
                    return None
        return "is branched on"
    if isinstance(tp, ast.BoolOp) and top in tp.values:
        # `if x and <other>: out.append(x)` - still only the node's own presence
        ip = parent(tp)
        if isinstance(tp.op, ast.And) and isinstance(ip, ast.If) and ip.test is tp and _presence_test(top, var) > 0 and _only_adds(ip.body, var) and not ip.orelse:  # type: ignore[arg-type]
            return True
        return "is tested in a condition"
    if top is not n:
        return "is tested in a condition"
    if isinstance(p, ast.Call) and isinstance(p.func, ast.Attribute) and p.func.attr in ("replace", "replace_self") and n in p.args:
        st = parent(p)
        gi = parent(st) if isinstance(st, ast.Expr) else None
        if isinstance(gi, ast.If) and _presence_test(gi.test, var) != 0:
            sign = _presence_test(gi.test, var)
            there, absent = (gi.body, gi.orelse) if sign > 0 else (gi.orelse, gi.body)
            if _replace_or_remove(there, absent, var):
                return True
        return f"replaces another node (`{short(p, 50)}`): that node is only replaced when the warning is not suppressed, otherwise it stays in the tree"
    placed = isinstance(p, (ast.List, ast.Tuple)) or (isinstance(p, ast.Call) and isinstance(p.func, ast.Attribute) and p.func.attr in ("append", "insert") and n in p.args)
    if placed:
        if _presence_guarded(n, fi):
            return True
        return "is put into a node list without a test for None: a suppressed warning puts None among the nodes"
    if isinstance(p, (ast.UnaryOp, ast.Compare, ast.BoolOp)):
        return "is tested in a condition"
    if isinstance(p, ast.Return) and p.value is n:
        return True
    if isinstance(p, ast.Call) and (n in p.args or any(k.value is n for k in p.keywords)) and _depth < 2 and _CORPUS[0] is not None:
        # handed to a helper: what the helper does with that parameter
        try:
            ts = _resolver_of(_CORPUS[0])(p, fi)
        except Exception:
            ts = []
        if len(ts) == 1 and not ts[0].is_lambda and ts[0].fq != fi.fq:
            h = ts[0]
            bound = _bind_call(p, h) or {}
            pname = next((k for k, v in bound.items() if v is n), None)
            stores = [x for x in h.local_nodes() if isinstance(x, ast.Name) and x.id == pname and isinstance(x.ctx, ast.Store)]
            if pname is not None and not stores:
                verdicts = [_use_kind(x, h, _depth + 1) for x in h.local_nodes() if isinstance(x, ast.Name) and x.id == pname and isinstance(x.ctx, ast.Load)]
                bad = [v for v in verdicts if isinstance(v, str)]
                if bad:
                    return f"is handed to {h.name}, where it {bad[0]}"
                if all(v is True for v in verdicts):
                    return True
    return None


def _observes_children(test: ast.expr, text: str) -> ast.AST | None:
    """Does this condition look at whether / how many children the node ``text`` has?"""
    for n in ast.walk(test):
        if isinstance(n, ast.Attribute) and n.attr == "children" and unparse(n.value) == text:
            return n
        if isinstance(n, ast.Call) and dotted(n.func) in ("len", "bool") and len(n.args) == 1 and unparse(n.args[0]) in (text, text + ".children"):
            return n
    core, _ = _strip_not(test)
    if unparse(core) == text:
        return core  # truth value of an Element = it has children
    if isinstance(core, ast.BoolOp):
        for v in core.values:
            if unparse(_strip_not(v)[0]) == text:
                return v
    return None


def _append_target_observed(fi: FunctionInfo, call: ast.Call, implicit: ast.expr | None = None) -> tuple[ast.AST, str] | None:
    """``create_warning(..., append_to=X)`` followed, on some path, by a condition on X's children: the
    condition's outcome depends on whether the message node was appended, i.e. on suppression."""
    a = kwarg(call, "append_to")
    if (a is None or is_const(a, None)) and implicit is not None and isinstance(call.func, ast.Attribute) and not fi.is_lambda:
        # the wrapper stands `<receiver>.<attr>` in for a missing parent
        text = unparse(call.func.value) + unparse(implicit)[len("self"):]
    elif a is None or is_const(a, None) or fi.is_lambda:
        return None
    else:
        text = unparse(a)
    root = text.split(".")[0].split("[")[0]
    try:
        cfg = get_cfg(fi)
        start = cfg.stmt_of(call)
    except Exception:
        return None

    def kills(n) -> bool:
        """The name is rebound (a new node), or the node certainly gets another child: the test no longer tells."""
        if isinstance(n, (ast.For, ast.AsyncFor)) and root in _names(n.target):
            return True
        if isinstance(n, ast.Assign) and any(unparse(t) in (text, root) for t in n.targets):
            return True
        if isinstance(n, ast.AugAssign) and unparse(n.target) == text:
            return True
        if isinstance(n, ast.Expr) and isinstance(n.value, ast.Call) and isinstance(n.value.func, ast.Attribute) and n.value.func.attr in ("append", "extend", "insert") and unparse(n.value.func.value) == text:
            return True
        return False

    for st in fi.local_nodes():
        test = getattr(st, "test", None) if isinstance(st, (ast.If, ast.While)) else None
        holders = [(st, test)] if test is not None else []
        if isinstance(st, ast.IfExp) or (isinstance(st, ast.Call) and dotted(st.func) in ("len", "bool") and len(st.args) == 1 and unparse(st.args[0]) in (text, text + ".children")):
            try:  # a conditional expression, or the child count / emptiness taken as a value
                holders = [(cfg.stmt_of(st), st.test if isinstance(st, ast.IfExp) else st)]
            except Exception:
                holders = []
        for holder, tst in holders:
            obs = _observes_children(tst, text)
            if obs is None or holder is start:
                continue
            if cfg.paths_avoiding(start, holder, kills):
                return tst, text
    return None


@rule("C14.R5")
def r5_return_value_unused(corpus: Corpus, rep: Report, tier: str):
    rep.rule("C14.R5", "the value returned by create_warning is only discarded, returned by a wrapper, or placed in a list, and the node given as append_to is not tested for children afterwards; nothing else depends on the warning")
    em = _emissions(corpus)
    implicit = _wrapper_default_parent(em)
    for fi, call, kind in em.sites:
        if kind not in ("create_warning()", "renderer.create_warning()"):
            continue
        k = f"{stmt_key(fi, call, 90)}"
        status, site, what = _judge_result(em, fi, call, 0)
        obs = _append_target_observed(fi, call, implicit if kind == "renderer.create_warning()" else None)
        if obs is not None:
            rep.violation("C14.R5", f"{fi.fq}|append_to={obs[1]} tested after create_warning|{short(obs[0], 60)}", fi.module.site(obs[0]), f"`{short(obs[0], 50)}` is evaluated after the message node may have been appended to `{obs[1]}` (append_to): its outcome, and what it guards, depends on whether the warning was suppressed")
        if status == "ok":
            rep.ok("C14.R5", k, site, what)
        elif status == "violation":
            rep.violation("C14.R5", k, site, what)
        else:
            rep.error("C14.R5", f"{site}: {what}")
    rep.expect_min("C14.R5", 25, "create_warning call sites")


def _judge_result(em: Emissions, fi: FunctionInfo, call: ast.Call, depth: int) -> tuple[str, str, str]:
    site = fi.module.site(call)
    top: ast.AST = call
    while (isinstance(parent(top), ast.IfExp) and parent(top).test is not top) or (isinstance(parent(top), ast.BoolOp) and parent(top).values[-1] is top):  # type: ignore[union-attr]
        top = parent(top)  # type: ignore[assignment]  # `create_warning(...) if bad else None`, `bad and create_warning(...)`: still node-or-None
    p = parent(top)
    if isinstance(p, ast.Expr):
        return "ok", site, "discarded"
    if (isinstance(p, ast.Return) and p.value is top) or (fi.is_lambda and fi.node.body is top):
        if fi.fq == em.cw_meth.fq:
            return "ok", site, "returned by the renderer wrapper, whose call sites are judged as emission sites"
        if fi.is_lambda:
            bad = _callback_value_used(em, fi)
            return ("violation", site, bad) if bad else ("ok", site, "returned by a callback whose callers discard it")
        # another wrapper: follow its call sites
        callers = _callers(em.c).get(fi.fq, [])
        if depth > 3 or not callers:
            return "error", site, f"the result is returned by {fi.qualname}, whose call sites cannot be followed"
        for cfi, ccall in callers:
            st, s2, w2 = _judge_result(em, cfi, ccall, depth + 1)
            if st != "ok":
                return st, s2, w2
        return "ok", site, f"returned by wrapper {fi.qualname}; its {len(callers)} call site(s) judged"
    if isinstance(p, ast.Assign) and len(p.targets) == 1 and isinstance(p.targets[0], ast.Name):
        var = p.targets[0].id
        stores = [n for n in fi.local_nodes() if isinstance(n, ast.Name) and n.id == var and isinstance(n.ctx, ast.Store)]
        reached = None  # None: every use; else the statements this assignment can reach without another store
        if len(stores) != 1:
            if fi.is_lambda:
                return "error", site, f"`{var}` (result of create_warning) is assigned more than once: uses not followed"
            try:
                cfg = get_cfg(fi)
                others = {cfg.stmt_of(s) for s in stores} - {p}
                loads = [n for n in fi.local_nodes() if isinstance(n, ast.Name) and n.id == var and isinstance(n.ctx, ast.Load)]
                reached = {id(n) for n in loads if cfg.paths_avoiding(p, cfg.stmt_of(n), lambda x: x in others)}
            except Exception as e:  # nested scopes etc.
                return "error", site, f"`{var}` (result of create_warning) is assigned more than once and its uses cannot be followed ({type(e).__name__})"
        bad = None
        unk = None
        for n in fi.local_nodes():
            if isinstance(n, ast.Name) and n.id == var and isinstance(n.ctx, ast.Load) and (reached is None or id(n) in reached):
                how = _use_kind(n, fi)
                if how is None:
                    unk = n
                elif how is not True:
                    bad = (n, how)
        if bad:
            return "violation", fi.module.site(bad[0]), f"the result of create_warning (None when suppressed) {bad[1]}: suppressing the warning changes more than the warning"
        if unk is not None:
            return "error", fi.module.site(unk), f"cannot decide what depends on the result of create_warning in `{short(parent(unk), 50)}`"
        return "ok", site, f"only used as an optional list element ({var})"
    return "violation", site, f"the result of create_warning is used in `{short(p, 60)}`: suppressing the warning changes more than the warning"


def _callback_value_used(em: Emissions, wrapper: FunctionInfo) -> str | None:
    """For lambdas passed as callbacks: every call of the callback must discard the value."""
    if not wrapper.is_lambda:
        return None
    for fi, call in _callers(em.c).get(wrapper.fq, []):
        if not isinstance(parent(call), ast.Expr):
            return f"the warning callback's result is used at {fi.module.site(call)}"
    return None


# -- R6 -----------------------------------------------------------------------------------


def _lift(roles: "_TagRoles", e: ast.expr) -> tuple["_TagRoles", ast.expr]:
    """Express a helper's parameter in its caller's terms (as far out as it goes)."""
    for _ in range(8):
        if isinstance(e, ast.Name) and roles.outer is not None and e.id in roles.bound:
            e, roles = roles.bound[e.id], roles.outer
            continue
        d = roles.deref(e)
        if isinstance(d, ast.Name) and d is not e:
            e = d
            continue
        break
    return roles, e


def _is_message(roles: "_TagRoles", e: ast.expr) -> bool:
    r, x = _lift(roles, e)
    return r.outer is None and _is_name(x, "message")


def _tag_parts(roles: _TagRoles, e: ast.expr | None, depth: int = 0) -> list | None:
    """Flatten a message expression into literal text and ('v', expr, roles) holes; None if not understood.
    A helper that builds the text is followed with its parameters bound."""
    if e is None or depth > 8:
        return None
    if isinstance(e, ast.Constant) and isinstance(e.value, str):
        return [e.value]
    if isinstance(e, ast.JoinedStr):
        out: list = []
        for v in e.values:
            if isinstance(v, ast.Constant):
                out.append(v.value)
            elif isinstance(v, ast.FormattedValue) and v.conversion in (-1, 115) and v.format_spec is None:
                out.append(("v", v.value, roles))
            else:
                return None
        return out
    if isinstance(e, ast.BinOp) and isinstance(e.op, ast.Add):
        a, b = _tag_parts(roles, e.left, depth + 1), _tag_parts(roles, e.right, depth + 1)
        return None if a is None or b is None else a + b
    if isinstance(e, ast.Name):
        if roles.outer is not None and e.id in roles.bound:
            return _tag_parts(roles.outer, roles.bound[e.id], depth + 1)
        d = roles.deref(e)
        if d is e:
            return [("v", e, roles)]
        return _tag_parts(roles, d, depth + 1)
    if isinstance(e, ast.Call) and roles.resolver is not None:
        try:
            ts = roles.resolver(e, roles.cw)
        except Exception:
            ts = []
        if len(ts) == 1 and not ts[0].is_lambda:
            h = ts[0]
            ret, bound = _return_expr(h), _bind_call(e, h)
            if ret is not None and bound is not None:
                return _tag_parts(_TagRoles(h, roles.resolver, "\0sub", "\0type", None, roles.depth + 1, outer=roles, bound=bound), ret, depth + 1)
    return None


def _merge_text(parts: list) -> list:
    out: list = []
    for p in parts:
        if isinstance(p, str) and out and isinstance(out[-1], str):
            out[-1] += p
        elif p != "":
            out.append(p)
    return out


@rule("C14.R6")
def r6_tag_format(corpus: Corpus, rep: Report, tier: str):
    rep.rule("C14.R6", "enum members are rendered with .value; type defaults to 'myst'; log record and message node carry the same [type.subtype] tag; the renderer wrapper forwards its arguments")
    R = "C14.R6"
    w = corpus.mod("warnings_")
    cw = w.func("create_warning")
    _CORPUS[0] = corpus
    isw = _find_isw(corpus, cw)
    if not {"message", "subtype", "wtype"} <= set(cw.params):
        rep.error(R, "create_warning signature changed (message / subtype / wtype)")
        return
    resolver = _resolver_of(corpus)
    units = _discover_units(cw, isw, resolver, _confined_helpers(corpus, cw))

    def verdict(key: str, st: tuple[str, str], s: str, okwhat: str, errwhat: str) -> None:
        if st[0] == "ok":
            rep.ok(R, key, s, okwhat)
        elif st[0] == "bad":
            rep.violation(R, key, s, st[1])
        else:
            rep.error(R, f"create_warning: {errwhat}: {st[1]}")

    # the Sphinx logger call passes the type and subtype strings
    def logger_calls(typed: bool) -> list[tuple[ast.Call, _Unit]]:
        out = []
        for u in units:
            for c in u.fi.local_nodes():
                if isinstance(c, ast.Call) and isinstance(c.func, ast.Attribute) and c.func.attr == "warning":
                    if typed and kwarg(c, "type") is not None:
                        out.append((c, u))
                    elif not typed and kwarg(c, "type") is None and "logger" in unparse(c.func.value).lower():
                        out.append((c, u))
        return out

    lw = logger_calls(True)
    if not lw:
        untyped = logger_calls(False)
        if len(untyped) == 1:
            rep.violation(R, f"{cw.fq}|log record type", untyped[0][1].fi.module.site(untyped[0][0]), "the Sphinx log record carries no type=/subtype=: Sphinx can neither tag nor suppress it")
            return
    if len(lw) != 1:
        rep.error(R, f"create_warning: expected one Sphinx logger call with type=, found {len(lw)}")
        return
    lcall, lu = lw[0]
    lsite = lu.fi.module.site(lcall)
    type_e, sub_e = kwarg(lcall, "type"), kwarg(lcall, "subtype")
    verdict(f"{cw.fq}|log record type", lu.roles.classify_type(type_e), lsite, "type= is wtype, 'myst' when not given", "type= of the Sphinx log record not understood")
    if sub_e is None:
        rep.violation(R, f"{cw.fq}|log record subtype", lsite, "the Sphinx log record carries no subtype=: it cannot be suppressed by type.subtype")
    else:
        verdict(f"{cw.fq}|log record subtype", lu.roles.classify_sub(sub_e), lsite, "subtype= is the str, or the enum member's .value", "subtype= of the Sphinx log record not understood")
    # message nodes (docutils reporter, Sphinx system_message) carry "<message> [<type>.<subtype>]"
    uses = [(c, text, label, u) for u in units for c, text, label in _node_builders(u.fi, resolver, set(u.emitter_calls))]
    if len(uses) < 2:
        rep.error(R, f"create_warning: expected the docutils reporter call and the Sphinx node builder, found {len(uses)}")
        return
    for c, text, label, u in uses:
        k = f"{cw.fq}|node text carries the tag|{label}"
        s = u.fi.module.site(c)
        parts = _tag_parts(u.roles, text)
        if parts is None:
            rep.error(R, f"create_warning: message text of `{short(c, 50)}` is built in an idiom not understood")
            continue
        parts = _merge_text(parts)
        holes = [p for p in parts if isinstance(p, tuple)]
        texts = [p for p in parts if isinstance(p, str)]
        shape = ["v" if isinstance(p, tuple) else "t" for p in parts]
        if len(holes) == 1 and _is_message(holes[0][2], holes[0][1]) and not texts:
            rep.violation(R, k, s, "a message node is built from the untagged message")
        elif shape == ["v", "t", "v", "t", "v", "t"] and texts == [" [", ".", "]"] and _is_message(holes[0][2], holes[0][1]):
            (_, h1, r1), (_, h2, r2) = holes[1], holes[2]
            t1, s2 = r1.classify_type(h1), r2.classify_sub(h2)
            if t1[0] == "ok" and s2[0] == "ok":
                rep.ok(R, k, s, "'<message> [<type>.<subtype>]' with the strings of the log record")
            elif r1.classify_sub(h1)[0] == "ok" and r2.classify_type(h2)[0] == "ok":
                rep.violation(R, k, s, "message tag is [subtype.type], not [type.subtype]")
            else:
                bad = [x for x in (t1, s2) if x[0] == "bad"]
                if bad:
                    rep.violation(R, k, s, "message tag differs from the log record's type/subtype: " + "; ".join(b[1] for b in bad))
                else:
                    rep.error(R, f"create_warning: cannot relate the tag of `{short(c, 50)}` to the log record's type/subtype")
        else:
            rep.violation(R, k, s, f"message tag is not '<message> [<type>.<subtype>]' (found {''.join(p if isinstance(p, str) else '{' + unparse(p[1]) + '}' for p in parts)!r})")
    # the renderer wrapper forwards every argument to the parameter of the same name
    m = corpus.func("mdit_to_docutils.base:DocutilsRenderer.create_warning")
    calls = [c for c in m.local_nodes() if isinstance(c, ast.Call) and em_resolves_to(corpus, c, m, cw)]
    km = f"{m.fq}|forwards arguments unchanged"
    if len(calls) != 1 or any(isinstance(a, ast.Starred) for a in calls[0].args) or any(kw.arg is None for kw in calls[0].keywords):
        rep.error(R, f"{m.qualname}: expected one plain call of create_warning, found {len(calls)}")
        return
    bound: dict[str, ast.expr] = {}
    a = cw.node.args
    pos = [x.arg for x in a.posonlyargs + a.args]
    for i, arg in enumerate(calls[0].args):
        if i < len(pos):
            bound[pos[i]] = arg
    for kw in calls[0].keywords:
        bound[kw.arg] = kw.value  # type: ignore[index]
    problems, unknown = [], []
    if "document" not in bound or unparse(bound["document"]) != "self.document":
        unknown.append(f"document= {unparse(bound['document']) if 'document' in bound else 'missing'}")
    for p in m.params:
        if p == "self":
            continue
        if p not in cw.params:
            unknown.append(f"wrapper parameter {p} has no counterpart")
        elif p not in bound:
            problems.append(f"`{p}` is not forwarded: the caller's value is ignored")
        elif not _is_name(bound[p], p):
            other = bound[p]
            if p == "append_to" and _none_substitution(other, p) is not None and is_const(_param_default(m, p), None):
                # the caller's node is forwarded unchanged; only "no parent given" is replaced by a node of the renderer
                # (R5 judges the call sites that rely on it as append_to=<that node>)
                continue
            if isinstance(other, ast.Name) and other.id in m.params:
                problems.append(f"`{p}` receives the wrapper's `{other.id}`")
            else:
                unknown.append(f"{p}={short(other, 30)}")
    for p in ("message", "subtype", "wtype", "line", "append_to"):
        if p not in m.params:
            unknown.append(f"wrapper lost its parameter {p}")
    if problems:
        rep.violation(R, km, m.site(), "the renderer wrapper does not forward its arguments unchanged: " + "; ".join(problems))
    elif unknown:
        rep.error(R, f"{m.qualname}: forwarding not understood: " + "; ".join(unknown))
    else:
        rep.ok(R, km, m.site())


def _none_substitution(e: ast.expr, p: str) -> ast.expr | None:
    """``D if p is None else p`` / ``p if p is not None else D``: the stand-in D, else None."""
    if not isinstance(e, ast.IfExp) or not isinstance(e.test, ast.Compare) or len(e.test.ops) != 1:
        return None
    t = e.test
    if not (_is_name(t.left, p) and is_const(t.comparators[0], None)):
        return None
    if isinstance(t.ops[0], ast.Is) and _is_name(e.orelse, p):
        return e.body
    if isinstance(t.ops[0], ast.IsNot) and _is_name(e.body, p):
        return e.orelse
    return None


def _wrapper_default_parent(em: "Emissions") -> ast.expr | None:
    """The node the renderer wrapper attaches the message to when the caller names none (``self.<attr>``), if any."""
    m = em.cw_meth
    for c in m.local_nodes():
        if isinstance(c, ast.Call) and em_resolves_to(em.c, c, m, em.cw_func):
            a = kwarg(c, "append_to")
            d = _none_substitution(a, "append_to") if a is not None else None
            if d is not None and (dotted(d) or "").startswith("self.") and is_const(_param_default(m, "append_to"), None):
                return d
    return None


def em_resolves_to(corpus: Corpus, call: ast.Call, fi: FunctionInfo, target: FunctionInfo) -> bool:
    g = get_callgraph(corpus)
    try:
        return any(getattr(t, "fq", None) == target.fq for t in g.flat_targets(g.resolve_call(call, fi)))
    except Exception:
        return dotted(call.func) == target.name


# -- R7: the documented catalogue -------------------------------------------------------------

_WHOLE_ITER = {"list", "tuple", "sorted", "reversed", "iter"}


def _doc_source(e: ast.expr, fi: FunctionInfo) -> str | None:
    """What a comprehension over ``e`` yields: 'member' (the enum members), 'name' (member names),
    'attr_docs_items' / 'attr_docs_keys' (sphinx ModuleAnalyzer.attr_docs: {(class qualname, attribute NAME): doc lines})."""
    if isinstance(e, ast.Call) and isinstance(e.func, ast.Name) and e.func.id in _WHOLE_ITER and e.args:
        return _doc_source(e.args[0], fi)
    d = dotted(e)
    if d is not None and fi.module.resolve(d).endswith("warnings_.MystWarnings"):
        return "member"
    if isinstance(e, ast.Call) and isinstance(e.func, ast.Attribute) and not e.args:
        base = dotted(e.func.value) or ""
        if base.endswith("__members__") and fi.module.resolve(base.rsplit(".", 1)[0]).endswith("warnings_.MystWarnings"):
            return {"values": "member", "keys": "name", "items": "members_items"}.get(e.func.attr)
        if isinstance(e.func.value, ast.Attribute) and e.func.value.attr == "attr_docs":
            return {"items": "attr_docs_items", "keys": "attr_docs_keys"}.get(e.func.attr)
    if d is not None and d.endswith("__members__") and fi.module.resolve(d.rsplit(".", 1)[0]).endswith("warnings_.MystWarnings"):
        return "name"
    if isinstance(e, ast.Attribute) and e.attr == "attr_docs":
        return "attr_docs_keys"
    return None


def _target_path(tgt: ast.expr, name: str) -> tuple[int, ...] | None:
    if isinstance(tgt, ast.Name):
        return () if tgt.id == name else None
    if isinstance(tgt, (ast.Tuple, ast.List)):
        for i, x in enumerate(tgt.elts):
            p = _target_path(x, name)
            if p is not None:
                return (i,) + p
    return None


def _doc_tag_function(e: ast.expr, comp_stack: list, fi: FunctionInfo, depth: int = 0):
    """The documented tag as a function of (member name, member value), or (None, why)."""
    if depth > 6:
        return None, "nesting too deep"
    if isinstance(e, ast.Call) and isinstance(e.func, ast.Attribute) and e.func.attr in ("lower", "upper", "strip", "casefold") and not e.args and not e.keywords:
        f, why = _doc_tag_function(e.func.value, comp_stack, fi, depth + 1)
        attr = e.func.attr
        return ((lambda n, v, f=f, attr=attr: getattr(f(n, v), attr)()) if f else None), why
    if isinstance(e, ast.Call) and dotted(e.func) == "str" and len(e.args) == 1:
        return _doc_tag_function(e.args[0], comp_stack, fi, depth + 1)
    base, attr = (e.value, e.attr) if isinstance(e, ast.Attribute) else (e, None)
    if not isinstance(base, ast.Name):
        return None, f"tag computed as {short(e, 40)}"
    # find the comprehension that binds the name
    for idx in range(len(comp_stack) - 1, -1, -1):
        comp, owner = comp_stack[idx]
        path = _target_path(comp.target, base.id)
        if path is None:
            continue
        if comp.ifs and not all(_harmless_doc_filter(c) for c in comp.ifs):
            return None, f"the list is filtered by `{short(comp.ifs[0], 40)}`"
        src = _doc_source(comp.iter, fi)
        if src == "member" and path == ():
            if attr == "value":
                return (lambda n, v: v), ""
            if attr == "name":
                return (lambda n, v: n), ""
            return None, f"member rendered as {short(e, 30)}"
        if (src == "name" and path == ()) or (src == "members_items" and path == (0,)) or (src == "attr_docs_items" and path == (0, 1)) or (src == "attr_docs_keys" and path == (1,)):
            if attr is None:
                return (lambda n, v: n), ""
            return None, f"member name rendered as {short(e, 30)}"
        if src == "members_items" and path == (1,):
            if attr == "value":
                return (lambda n, v: v), ""
            if attr == "name":
                return (lambda n, v: n), ""
        if src is None and attr is None:
            # iterating an intermediate list of tuples built by another comprehension
            it = comp.iter
            if isinstance(it, ast.Name):
                defs = [n for n in fi.local_nodes() if isinstance(n, ast.Assign) and len(n.targets) == 1 and _is_name(n.targets[0], it.id)]
                it = defs[0].value if len(defs) == 1 else it
            if isinstance(it, (ast.ListComp, ast.GeneratorExp)) and len(it.generators) == 1:
                elt = it.elt
                for i in path:
                    if isinstance(elt, (ast.Tuple, ast.List)) and i < len(elt.elts):
                        elt = elt.elts[i]
                    else:
                        return None, "intermediate list elements are not tuples"
                return _doc_tag_function(elt, comp_stack[:idx] + [(it.generators[0], it)], fi, depth + 1)
        return None, f"iteration over `{short(comp.iter, 40)}` not understood"
    return None, f"`{base.id}` is not bound by a comprehension over the catalogue"


def _harmless_doc_filter(c: ast.expr) -> bool:
    """``if cls_name == qname``: selects the attribute docs of the enum class."""
    return isinstance(c, ast.Compare) and len(c.ops) == 1 and isinstance(c.ops[0], ast.Eq) and isinstance(c.left, ast.Name) and isinstance(c.comparators[0], ast.Name)


@rule("C14.R7")
def r7_documented_catalogue(corpus: Corpus, rep: Report, tier: str):
    rep.rule("C14.R7", "the documented catalogue (myst-warnings directive) lists, for every enum member, the tag myst.<member value> that is emitted")
    R = "C14.R7"
    em = _emissions(corpus)
    f = corpus.func("_docs:MystWarningsDirective.run")
    k = f"{f.fq}|documented tag"
    found = []
    for js in (n for n in f.local_nodes() if isinstance(n, ast.JoinedStr)):
        for i, v in enumerate(js.values[:-1]):
            if isinstance(v, ast.Constant) and isinstance(v.value, str) and v.value.lower().endswith("myst.") and isinstance(js.values[i + 1], ast.FormattedValue):
                found.append((js, v.value, js.values[i + 1].value))
    if len(found) != 1:
        rep.error(R, f"{f.qualname}: expected one f-string rendering 'myst.<tag>', found {len(found)} (catalogue rendered in an unknown idiom)")
        return
    js, prefix, hole = found[0]
    site = f.module.site(js)
    if not prefix.endswith("myst."):
        rep.violation(R, k + "|type", site, f"the catalogue documents the tags under {prefix[-5:]!r} instead of 'myst.'")
        return
    stack = []
    for a in reversed(list(ancestors(js))):
        if isinstance(a, (ast.ListComp, ast.GeneratorExp, ast.SetComp)):
            stack += [(g, a) for g in a.generators]
    fn, why = _doc_tag_function(hole, stack, f)
    if fn is None:
        rep.error(R, f"{f.qualname}: cannot decide which string is documented as the tag: {why}")
        return
    wrong = []
    for name, value in em.members.items():
        try:
            doc = fn(name, value)
        except Exception as e:  # a transform that does not apply to str
            rep.error(R, f"{f.qualname}: documented tag not computable ({type(e).__name__})")
            return
        if doc != value:
            wrong.append((name, doc, value))
    if wrong:
        n, d, v = wrong[0]
        rep.violation(R, k, site, f"the catalogue documents {len(wrong)} of {len(em.members)} tags that are never emitted, e.g. member {n} is documented as myst.{d} but emitted as myst.{v}: the documented tag does not suppress the warning")
    else:
        rep.ok(R, k, site, f"`myst.<member.value>` for each of the {len(em.members)} members")


# -- R8: message nodes are not content -------------------------------------------------------------------------
#
# Inline and block renderers attach the system_message of a warning next to the offending element
# (append_to=self.current_node), so any container of rendered content - a title, a term, a link, the body of a
# directive, the document root - may hold such nodes when the warning is NOT suppressed.  Whoever derives text,
# names, counts or structural decisions from such a container must leave them out, or the output differs between
# the suppressed and the unsuppressed run by more than the message.

# library functions that name something by the text of the nodes they are given: {dotted suffix: index of that argument}
TEXT_NAMERS = {"make_glossary_term": 1}


def _sm_class(e: ast.AST) -> bool:
    return (dotted(e) or "").split(".")[-1] == "system_message"


def _mentions_sm(e: ast.AST) -> bool:
    return any(_sm_class(x) for x in ast.walk(e) if isinstance(x, (ast.Attribute, ast.Name)))


def _class_predicate(e: ast.AST, fi: FunctionInfo) -> tuple[ast.expr, bool] | None:
    """``e`` names (or is) a one-argument predicate ``lambda n: [not] isinstance(n, K)``: -> (K, True if it holds for
    instances of K).  Shared predicates such as ``_is_body_content`` are read through, also from another module."""
    body = None
    param = None
    if isinstance(e, ast.Lambda) and len(e.args.args) == 1:
        body, param = e.body, e.args.args[0].arg
    else:
        d = dotted(e)
        h = None
        if d is not None:
            h = fi.module.functions.get(d)
            if h is None and _CORPUS[0] is not None:
                mod, _, name = fi.module.resolve(d).rpartition(".")
                mm = _CORPUS[0].modules.get(mod)
                h = mm.functions.get(name) if mm is not None else None
        if h is not None and not h.is_lambda:
            params = [p for p in h.params if p not in ("self", "cls")]
            rets = [n for n in h.local_nodes() if isinstance(n, ast.Return)]
            if len(params) == 1 and len(rets) == 1 and rets[0].value is not None:
                body, param = rets[0].value, params[0]
    if body is None:
        return None
    core, neg = _strip_not(body)
    if isinstance(core, ast.Call) and dotted(core.func) == "isinstance" and len(core.args) == 2 and _is_name(core.args[0], param):
        return core.args[1], not neg
    return None


def _selects_messages(e: ast.AST, fi: FunctionInfo) -> bool:
    """A node class / condition argument of findall/traverse that matches every system_message."""
    if _sm_class(e):
        return True
    if isinstance(e, (ast.Tuple, ast.BinOp)) and _mentions_sm(e) and not isinstance(e, ast.Call):
        return True
    p = _class_predicate(e, fi)
    return p is not None and p[1] and _mentions_sm(p[0])


def _class_tests_name_messages(e: ast.AST, fi: FunctionInfo) -> bool:
    """Some class test inside ``e`` - isinstance(...) or a call of a class predicate - names system_message."""
    for x in ast.walk(e):
        if isinstance(x, ast.Call) and dotted(x.func) == "isinstance" and len(x.args) == 2 and _mentions_sm(x.args[1]):
            return True
        if isinstance(x, ast.Call) and len(x.args) == 1 and not x.keywords and dotted(x.func) not in (None, "isinstance", "len", "list", "bool"):
            p = _class_predicate(x.func, fi)
            if p is not None and _mentions_sm(p[0]):
                return True
    return False


def _keeps_only_non_messages(cond: ast.expr, var: str | None, fi: FunctionInfo) -> bool:
    """A filter condition on an element that no system_message passes: ``not isinstance(c, <..system_message..>)``,
    a predicate defined that way, or ``not P(c)`` with P selecting messages."""
    core, neg = _strip_not(cond)
    if isinstance(core, ast.Call) and dotted(core.func) == "isinstance" and len(core.args) == 2 and (var is None or _is_name(core.args[0], var)):
        return neg and _mentions_sm(core.args[1])
    if isinstance(core, ast.Call) and len(core.args) == 1 and not core.keywords and (var is None or _is_name(core.args[0], var)):
        p = _class_predicate(core.func, fi)
        if p is not None and _mentions_sm(p[0]):
            return p[1] == neg  # holds-for-instances and negated, or holds-for-non-instances and plain
    if isinstance(core, ast.BoolOp) and isinstance(core.op, ast.And) and not neg:
        return any(_keeps_only_non_messages(v, var, fi) for v in core.values)
    return False


def _strips_messages(fi: FunctionInfo, recv_text: str, before: ast.AST) -> bool:
    """Does ``fi`` remove every system_message below ``recv_text`` on all paths to ``before``?
    (``for m in [list(]findall(X)(nodes.system_message)[)]: m.parent.remove(m)`` - directly or through a list bound before)"""
    if fi.is_lambda:
        return False
    cfg = get_cfg(fi)
    try:
        target = cfg.stmt_of(before)
    except Exception:
        return False

    def yields_messages(it: ast.expr, depth: int = 0) -> bool:
        if depth > 3:
            return False
        if isinstance(it, ast.Call) and isinstance(it.func, ast.Name) and it.func.id in ("list", "tuple", "reversed") and it.args:
            return yields_messages(it.args[0], depth + 1)
        if isinstance(it, ast.Name):
            defs = [n for n in fi.local_nodes() if isinstance(n, ast.Assign) and len(n.targets) == 1 and _is_name(n.targets[0], it.id)]
            return len(defs) == 1 and yields_messages(defs[0].value, depth + 1)
        if isinstance(it, ast.Call) and it.args and _selects_messages(it.args[0], fi):
            f = it.func  # findall(X)(cls) / X.findall(cls) / X.traverse(cls)
            if isinstance(f, ast.Call) and f.args and unparse(f.args[0]) == recv_text:
                return True
            if isinstance(f, ast.Attribute) and f.attr in ("findall", "traverse") and unparse(f.value) == recv_text:
                return True
        return False

    loops = []
    for n in fi.local_nodes():
        if isinstance(n, ast.For) and isinstance(n.target, ast.Name) and yields_messages(n.iter):
            v = n.target.id
            if any(isinstance(c, ast.Call) and isinstance(c.func, ast.Attribute) and c.func.attr == "remove" and unparse(c.func.value) == f"{v}.parent" and c.args and _is_name(c.args[0], v) for c in ast.walk(n)):
                loops.append(n)
    stmts = list(loops)
    for c in _detach_calls(fi, recv_text):
        try:
            stmts.append(cfg.stmt_of(c))
        except Exception:
            pass
    return any(not cfg.paths_avoiding("ENTRY", target, lambda x, lp=lp: x is lp) for lp in stmts if lp is not target)


def _only_rawsource(fi: FunctionInfo, call: ast.Call) -> bool:
    """The text only becomes the ``rawsource`` (first positional argument) of a newly constructed docutils node."""
    def is_ctor_first_arg(x: ast.AST) -> bool:
        p = parent(x)
        return isinstance(p, ast.Call) and bool(p.args) and p.args[0] is x and (dotted(p.func) or "").startswith("nodes.")

    if is_ctor_first_arg(call):
        return True
    p = parent(call)
    if isinstance(p, ast.Assign) and len(p.targets) == 1 and isinstance(p.targets[0], ast.Name) and not fi.is_lambda:
        var = p.targets[0].id
        loads = [n for n in fi.local_nodes() if isinstance(n, ast.Name) and n.id == var and isinstance(n.ctx, ast.Load)]
        try:  # only the uses this assignment reaches (the same name may be bound to other text on other branches)
            cfg = get_cfg(fi)
            others = {cfg.stmt_of(s) for s in fi.local_nodes() if isinstance(s, ast.Name) and s.id == var and isinstance(s.ctx, ast.Store)} - {p}
            reached = [n for n in loads if cfg.paths_avoiding(p, cfg.stmt_of(n), lambda x: x in others)]
        except Exception:
            return False
        return bool(reached) and all(is_ctor_first_arg(n) for n in reached)
    return False


def _doctitle_fact(corpus: Corpus) -> bool:
    """Sibling fact, re-read from the installed docutils: DocTitle sets ``document['title'] = document[0].astext()``
    (the text of the promoted title, message nodes included)."""

    def make() -> bool:
        try:
            m = corpus.sibling_module("docutils.transforms.frontmatter")
        except Exception:
            m = None
        if m is None:
            return False
        for n in ast.walk(m.tree):
            if isinstance(n, ast.Assign) and len(n.targets) == 1 and isinstance(n.targets[0], ast.Subscript) and is_const(n.targets[0].slice, "title") and unparse(n.targets[0].value).endswith("document"):
                v = n.value
                if isinstance(v, ast.Call) and isinstance(v.func, ast.Attribute) and v.func.attr == "astext" and isinstance(v.func.value, ast.Subscript) and is_const(v.func.value.slice, 0) and unparse(v.func.value.value).endswith("document"):
                    return True
        return False

    return corpus.cache("c14-doctitle-fact", make)


def _title_first_fact(corpus: Corpus) -> bool:
    """Sibling fact, re-read from the installed docutils: TitlePromoter.promote_title rebuilds the parent as
    ``section[:1] + node[:index] + section[1:]`` - a promoted title is the root's FIRST child, before any leading
    message node; and only promotion puts a title directly below the root."""

    def make() -> bool:
        try:
            m = corpus.sibling_module("docutils.transforms.frontmatter")
            f = m.classes["TitlePromoter"].methods["promote_title"]
        except Exception:
            return False
        for n in f.local_nodes():
            if isinstance(n, ast.Assign) and len(n.targets) == 1 and isinstance(n.targets[0], ast.Subscript) and isinstance(n.targets[0].slice, ast.Slice) and n.targets[0].slice.lower is None and n.targets[0].slice.upper is None:
                v = n.value
                while isinstance(v, ast.BinOp) and isinstance(v.op, ast.Add):
                    v = v.left
                if unparse(v) == "section[:1]":
                    return True
        return False

    return corpus.cache("c14-title-first-fact", make)


def _reads_title_attr(e: ast.expr, roots: dict[str, str]) -> bool:
    """``<root>["title"]`` / ``<root>.get("title"[, d])``."""
    if isinstance(e, ast.Subscript) and is_const(e.slice, "title") and unparse(e.value) in roots:
        return True
    return isinstance(e, ast.Call) and isinstance(e.func, ast.Attribute) and e.func.attr == "get" and unparse(e.func.value) in roots and bool(e.args) and is_const(e.args[0], "title")


def _is_root_first_child(e: ast.expr, fi: FunctionInfo, roots: dict[str, str]) -> bool:
    if isinstance(e, ast.Name) and not fi.is_lambda:
        defs = [n for n in fi.local_nodes() if isinstance(n, ast.Assign) and len(n.targets) == 1 and _is_name(n.targets[0], e.id)]
        # the first binding of the name (a later rebinding to a copy is another value)
        defs.sort(key=lambda n: n.lineno)
        if not defs:
            return False
        e = defs[0].value
    if isinstance(e, ast.Subscript) and is_const(e.slice, 0):
        base = e.value.value if isinstance(e.value, ast.Attribute) and e.value.attr == "children" else e.value
        return unparse(base) in roots
    return False


def _compared_with_derived_title(corpus: Corpus, fi: FunctionInfo, call: ast.Call) -> bool:
    """``<root>.get("title") != <root>[0].astext()``: the attribute docutils' DocTitle derived from the same node by the
    same expression, so both sides carry the same message text in either run - the comparison only tells who set the
    attribute and its outcome does not depend on suppression."""
    p = parent(call)
    if not (isinstance(p, ast.Compare) and len(p.ops) == 1 and isinstance(p.ops[0], (ast.Eq, ast.NotEq))):
        return False
    other = p.comparators[0] if p.left is call else p.left
    roots = {k: v for k, v in _content_containers(fi).items() if v.startswith("the document root")}
    if not _reads_title_attr(other, roots):
        return False
    recv = call.func.value  # type: ignore[union-attr]
    if isinstance(recv, ast.Name):
        # the binding that reaches this use
        defs = sorted((n for n in fi.local_nodes() if isinstance(n, ast.Assign) and len(n.targets) == 1 and _is_name(n.targets[0], recv.id) and n.lineno < call.lineno), key=lambda n: n.lineno)
        if not defs or not _is_root_first_child(defs[-1].value, fi, roots):
            return False
    elif not _is_root_first_child(recv, fi, roots):
        return False
    return _doctitle_fact(corpus)


def _is_emptiness_guard(n: ast.Call, base: str) -> bool:
    """``len(X) and isinstance(X[k], K)`` (K no message class): the count only protects the subscript.  If X holds
    nothing but message nodes the class test fails just as the guard fails on the empty list of the suppressed run,
    so the count adds no dependence of its own (the positional class test is judged for itself)."""
    top: ast.AST = n
    p = parent(top)
    if isinstance(p, ast.Compare) and len(p.ops) == 1 and p.left is top and isinstance(p.comparators[0], ast.Constant) and (
        (isinstance(p.ops[0], (ast.Gt, ast.NotEq)) and p.comparators[0].value == 0) or (isinstance(p.ops[0], ast.GtE) and p.comparators[0].value == 1)
    ):
        top, p = p, parent(p)
    if not (isinstance(p, ast.BoolOp) and isinstance(p.op, ast.And)):
        return False
    idx = next(i for i, v in enumerate(p.values) if v is top)
    later = p.values[idx + 1:]
    if not later:
        return False
    for v in p.values[:idx] + later:
        mentions = any(unparse(x) == base for x in ast.walk(v) if isinstance(x, (ast.Name, ast.Attribute)))
        if not mentions:
            continue
        core, _neg = _strip_not(v)
        ok = isinstance(core, ast.Call) and dotted(core.func) == "isinstance" and len(core.args) == 2 and isinstance(core.args[0], ast.Subscript) and isinstance(core.args[0].slice, ast.Constant) and unparse(core.args[0].value) in (base, base + ".children") and not _mentions_sm(core.args[1])
        if not ok or v in p.values[:idx]:
            return False
    return True


_FOOTNOTE_REGISTRIES = ("footnotes", "autofootnotes", "symbol_footnotes")


def _is_footnote_label(recv: ast.expr, fi: FunctionInfo) -> bool:
    """``<footnote>.children[0]`` / ``<footnote>[0]`` with <footnote> taken from the document's footnote registries:
    the label node, which holds the label text only."""
    if isinstance(recv, ast.Name) and not fi.is_lambda:
        defs = [n for n in fi.local_nodes() if isinstance(n, ast.Assign) and len(n.targets) == 1 and _is_name(n.targets[0], recv.id)]
        if len(defs) != 1:
            return False
        recv = defs[0].value
    if not (isinstance(recv, ast.Subscript) and is_const(recv.slice, 0)):
        return False
    base = recv.value.value if isinstance(recv.value, ast.Attribute) and recv.value.attr == "children" else recv.value
    if not isinstance(base, ast.Name) or fi.is_lambda:
        return False
    for n in fi.local_nodes():
        tgt, it = (n.target, n.iter) if isinstance(n, (ast.For, ast.comprehension)) else (None, None)
        if tgt is not None and _is_name(tgt, base.id) and any(isinstance(x, ast.Attribute) and x.attr in _FOOTNOTE_REGISTRIES for x in ast.walk(it)):
            return True
    return False


def _is_math_leaf(recv: ast.expr, fi: FunctionInfo) -> bool:
    """A parameter annotated as a docutils math / math_block node: a text-only leaf."""
    if not isinstance(recv, ast.Name) or fi.is_lambda:
        return False
    a = fi.node.args
    for x in a.posonlyargs + a.args + a.kwonlyargs:
        if x.arg == recv.id and x.annotation is not None:
            return unparse(x.annotation).strip("'\"").split(".")[-1] in ("math", "math_block")
    return False


_WARNING_CALLS = ("log_warning", "create_warning", "warning")


def _only_in_warning_text(corpus: Corpus, fi: FunctionInfo, call: ast.Call, depth: int = 0) -> bool:
    """The text is only used to word a warning: it stays inside the arguments of a warning call, directly, through
    a local, or as the value returned to callers that use it that way."""
    if fi.is_lambda or depth > 2:
        return False

    def inside_warning(x: ast.AST) -> bool:
        return any(isinstance(a, ast.Call) and isinstance(a.func, (ast.Attribute, ast.Name)) and (dotted(a.func) or "").split(".")[-1] in _WARNING_CALLS for a in ancestors(x))

    def value_ok(x: ast.AST, f: FunctionInfo, d: int) -> bool:
        if inside_warning(x):
            return True
        st = x
        while not isinstance(st, ast.stmt):
            st = parent(st)
            if st is None:
                return False
        if isinstance(st, ast.Assign) and len(st.targets) == 1 and isinstance(st.targets[0], ast.Name):
            var = st.targets[0].id
            loads = [n for n in f.local_nodes() if isinstance(n, ast.Name) and n.id == var and isinstance(n.ctx, ast.Load)]
            return bool(loads) and all(value_ok(n, f, d) if not inside_warning(n) and isinstance(parent(n), (ast.FormattedValue, ast.JoinedStr, ast.Return)) else inside_warning(n) for n in loads) and d < 6
        if isinstance(st, ast.Return) and d < 3:
            callers = _callers(corpus).get(f.fq, [])
            return bool(callers) and all(value_ok(c, cf, d + 1) for cf, c in callers if not cf.is_lambda) and not any(cf.is_lambda for cf, _ in callers)
        return False

    return value_ok(call, fi, depth)


def _filtered_children(e: ast.expr, fi: FunctionInfo, depth: int = 0) -> tuple[str | None, bool]:
    """(container whose children ``e`` enumerates, are system_message nodes filtered out) - (None, _) if ``e`` is not a child list."""
    if depth > 4:
        return None, False
    if isinstance(e, ast.Attribute) and e.attr == "children":
        return unparse(e.value), False
    if isinstance(e, ast.Call) and isinstance(e.func, ast.Name) and e.func.id in ("list", "tuple", "reversed") and e.args:
        return _filtered_children(e.args[0], fi, depth + 1)
    if isinstance(e, ast.Subscript) and isinstance(e.slice, ast.Slice):
        return _filtered_children(e.value, fi, depth + 1)  # a stretch of the child list (`X.children[:i]`)
    if isinstance(e, ast.Call) and dotted(e.func) == "filter" and len(e.args) == 2:
        base, filt = _filtered_children(e.args[1], fi, depth + 1)
        if base is None:
            return None, False
        p = _class_predicate(e.args[0], fi)
        return base, filt or (p is not None and not p[1] and _mentions_sm(p[0]))
    if isinstance(e, (ast.ListComp, ast.GeneratorExp)) and len(e.generators) == 1:
        g = e.generators[0]
        base, filt = _filtered_children(g.iter, fi, depth + 1)
        if base is None:
            return None, False
        if isinstance(e.elt, ast.Name) and isinstance(g.target, ast.Name) and e.elt.id == g.target.id:
            for c in g.ifs:
                if _keeps_only_non_messages(c, g.target.id, fi):
                    filt = True
            return base, filt
        return None, False
    if isinstance(e, ast.Name):
        defs = [n for n in fi.local_nodes() if isinstance(n, ast.Assign) and len(n.targets) == 1 and _is_name(n.targets[0], e.id)]
        if len(defs) == 1:
            return _filtered_children(defs[0].value, fi, depth + 1)
    return None, False


def _content_containers(fi: FunctionInfo) -> dict[str, str]:
    """Names in ``fi`` that denote a container which may hold message nodes: the document root (and a cursor that
    walks down from it), the node a nested parse renders into."""
    out: dict[str, str] = {}
    for n in fi.local_nodes():
        if isinstance(n, ast.Attribute) and n.attr == "document" and isinstance(n.value, ast.Name) and n.value.id == "self":
            out["self.document"] = "the document root"
        if isinstance(n, ast.Call) and isinstance(n.func, ast.Attribute) and n.func.attr == "nested_parse" and len(n.args) >= 3 and isinstance(n.args[2], ast.Name):
            out[n.args[2].id] = "the container a nested parse renders the directive content into"
    if "document" in fi.params:
        out["document"] = "the document root"
    for n in fi.local_nodes():
        # `parent = <node>.parent`: whatever holds a node of the tree may hold the message nodes rendered next to it
        if isinstance(n, ast.Assign) and len(n.targets) == 1 and isinstance(n.targets[0], ast.Name) and isinstance(n.value, ast.Attribute) and n.value.attr == "parent":
            out.setdefault(n.targets[0].id, "the parent of a node of the tree")
    changed = True
    while changed:  # `node = self.document` ... `node = children[-1]`: a cursor below the root
        changed = False
        for n in fi.local_nodes():
            if isinstance(n, (ast.Assign, ast.AnnAssign)) and n.value is not None:
                tgt = n.targets[0] if isinstance(n, ast.Assign) and len(n.targets) == 1 else getattr(n, "target", None)
                if isinstance(tgt, ast.Name) and tgt.id not in out and unparse(n.value) in out:
                    out[tgt.id] = out[unparse(n.value)] + " (or a section below it)"
                    changed = True
    return out


@rule("C14.R8")
def r8_messages_are_not_content(corpus: Corpus, rep: Report, tier: str):
    rep.rule("C14.R8", "warning nodes are not content: text, names, child counts and structural tests taken from a container of rendered content leave system_message nodes out; no message node is attached to the document root after the body")
    R = "C14.R8"
    _CORPUS[0] = corpus
    n_text = 0
    # (a) text of rendered content
    for fi in corpus.all_functions():
        nodes_ = fi.local_nodes() if not fi.is_lambda else list(ast.walk(fi.node.body))
        for c in nodes_:
            if not (isinstance(c, ast.Call) and isinstance(c.func, ast.Attribute) and c.func.attr == "astext" and not c.args):
                continue
            n_text += 1
            recv = unparse(c.func.value)
            k = f"{fi.fq}|text of {recv}"
            site = fi.module.site(c)
            if _strips_messages(fi, recv, c):
                rep.ok(R, k, site, "system_message nodes are removed from the (copied) node first")
            elif _only_rawsource(fi, c):
                rep.ok(R, k, site, "only the rawsource of a newly built node, which no writer renders")
            elif _is_footnote_label(c.func.value, fi):
                rep.ok(R, k, site, "the label node of a registered footnote: holds the label text only")
            elif _is_math_leaf(c.func.value, fi):
                rep.ok(R, k, site, "a math node: a text-only leaf")
            elif _only_in_warning_text(corpus, fi, c):
                rep.ok(R, k, site, "only words a warning message")
            elif _compared_with_derived_title(corpus, fi, c):
                rep.ok(R, k, site, "only compared with document['title'], which docutils' DocTitle derived from the same node by the same expression: equal in both runs")
            else:
                rep.violation(R, k, site, f"`{short(parent(c) if isinstance(parent(c), ast.stmt) else c, 60)}`: the text of `{recv}` includes the text of any warning attached inside it (system_message nodes are not removed first): the value differs between the suppressed and the unsuppressed run")
    rep.expect_min(R, 5, ".astext() call sites (9 on the reviewed tree)")
    # (b) library functions that name something by the text of the nodes they get
    for fi in corpus.all_functions():
        if fi.is_lambda:
            continue
        for c in fi.local_nodes():
            if not isinstance(c, ast.Call):
                continue
            name = (dotted(c.func) or "").split(".")[-1]
            if name not in TEXT_NAMERS or len(c.args) <= TEXT_NAMERS[name]:
                continue
            arg = c.args[TEXT_NAMERS[name]]
            base = unparse(arg.value) if isinstance(arg, ast.Attribute) and arg.attr == "children" else unparse(arg)
            k = f"{fi.fq}|{name}({unparse(arg)})"
            if _strips_messages(fi, base, c):
                rep.ok(R, k, fi.module.site(c), "system_message nodes are taken out before the nodes are handed over")
            else:
                rep.violation(R, k, fi.module.site(c), f"{name} names its object by the text of `{unparse(arg)}`, which includes any warning attached inside: id and name differ between the suppressed and the unsuppressed run")
    # (c) counting / classifying the children of a container that may hold message nodes
    for fi in corpus.all_functions():
        if fi.is_lambda or fi.cls is None and fi.parent_func is None and fi.name.startswith("render_"):
            continue
        conts = _content_containers(fi)
        if not conts:
            continue
        seen: set[str] = set()
        for n in fi.local_nodes():
            subject = None  # (expression enumerating children, how it is used)
            if isinstance(n, ast.Call) and dotted(n.func) == "len" and len(n.args) == 1:
                subject = (n.args[0], "is counted")
            elif isinstance(n, ast.Call) and dotted(n.func) in ("all", "any") and len(n.args) == 1 and isinstance(n.args[0], (ast.GeneratorExp, ast.ListComp)) and len(n.args[0].generators) == 1 and any(isinstance(x, ast.Call) and (dotted(x.func) == "isinstance" or (len(x.args) == 1 and _class_predicate(x.func, fi) is not None)) for x in ast.walk(n.args[0].elt)):
                g = n.args[0].generators[0]
                if _class_tests_name_messages(n.args[0], fi):
                    continue  # the classification names system_message itself (directly or through a shared class predicate)
                subject = (g.iter, "is classified by node class")
            elif isinstance(n, ast.Assign) and len(n.targets) == 1 and isinstance(n.targets[0], (ast.Tuple, ast.List)):
                subject = (n.value, "is unpacked into a fixed number of items")
            elif isinstance(n, ast.Subscript) and isinstance(n.ctx, ast.Load) and not isinstance(n.slice, ast.Slice) and isinstance(parent(n), ast.Call) and dotted(parent(n).func) == "isinstance":
                subject = (n.value, "has an item picked by position and classified")
            elif isinstance(n, ast.Call) and dotted(n.func) == "next" and n.args:
                # last = next(filter(P, reversed(X.children)), None) ... isinstance(last, K): the same pick, spelled with next()
                pa = parent(n)
                tested = isinstance(pa, ast.Call) and dotted(pa.func) == "isinstance"
                if isinstance(pa, ast.Assign) and len(pa.targets) == 1 and isinstance(pa.targets[0], ast.Name):
                    v = pa.targets[0].id
                    tested = any(isinstance(x, ast.Call) and dotted(x.func) == "isinstance" and x.args and _is_name(x.args[0], v) for x in fi.local_nodes())
                if tested:
                    it0 = n.args[0].args[0] if isinstance(n.args[0], ast.Call) and dotted(n.args[0].func) == "iter" and n.args[0].args else n.args[0]
                    subject = (it0, "has an item picked by position and classified")
            if subject is None:
                continue
            expr, how = subject
            base, filt = _filtered_children(expr, fi)
            if base is None and unparse(expr) in conts and how == "is counted":
                base, filt = unparse(expr), False  # len(node) == len(node.children)
            if base is None or base not in conts:
                continue
            k = f"{fi.fq}|children of {base}|{how}"
            if k in seen:
                continue
            seen.add(k)
            if how.startswith("has an item picked") and not filt and conts[base] == "the document root" and is_const(n.slice, 0) and (dotted(parent(n).args[1]) or "").split(".")[-1] == "title" and _title_first_fact(corpus):
                rep.ok(R, k, fi.module.site(n), "root[0] tested for nodes.title: docutils puts a promoted title first, before any message node, and nothing else puts a title below the root")
            elif how == "is counted" and not filt and isinstance(n, ast.Call) and _is_emptiness_guard(n, base):
                rep.ok(R, k, fi.module.site(n), "only guards the subscript of a positional class test against a non-message class: message nodes alone fail that test as an empty list fails the guard")
            elif filt:
                rep.ok(R, k, fi.module.site(n), "system_message children are filtered out first")
            else:
                rep.violation(R, k, fi.module.site(n), f"`{short(n, 60)}`: the child list of `{base}` ({conts[base]}) {how} without leaving out system_message nodes: a warning attached there changes the decision, so suppressing it changes more than the message")
    # (e) docutils' DocTitle derives document['title'] from the title's astext(): the docutils front end must recompute it
    if _doctitle_fact(corpus):
        gt = corpus.func("parsers.docutils_:Parser.get_transforms")
        k = f"{gt.fq}|document title without warning text"
        names = [x for r in gt.local_nodes() if isinstance(r, ast.Return) and r.value is not None for lst in ast.walk(r.value) if isinstance(lst, (ast.List, ast.Tuple)) for x in lst.elts if isinstance(x, (ast.Name, ast.Attribute))]
        found, why = None, []
        for x in names:
            full = gt.module.resolve(dotted(x) or "")
            mod, _, cname = full.rpartition(".")
            mm = corpus.modules.get(mod)
            ci = mm.classes.get(cname) if mm is not None else None
            ap = ci.methods.get("apply") if ci is not None else None
            if ap is None:
                continue
            stores = [n for n in ap.local_nodes() if isinstance(n, ast.Assign) and len(n.targets) == 1 and isinstance(n.targets[0], ast.Subscript) and is_const(n.targets[0].slice, "title") and unparse(n.targets[0].value) in ("self.document", "document")]
            if not stores:
                continue
            prio = next((s.value for s in ci.node.body if isinstance(s, ast.Assign) and len(s.targets) == 1 and _is_name(s.targets[0], "default_priority")), None)
            after = isinstance(prio, ast.BinOp) and isinstance(prio.op, ast.Add) and isinstance(prio.right, ast.Constant) and isinstance(prio.right.value, int) and prio.right.value > 0 and mm.resolve(dotted(prio.left) or "").endswith("frontmatter.DocTitle.default_priority")
            if not after:
                why.append(f"{cname} does not run after DocTitle (default_priority = {short(prio, 40) if prio is not None else 'inherited'})")
                continue
            clean = [s for s in stores if isinstance(s.value, ast.Call) and isinstance(s.value.func, ast.Attribute) and s.value.func.attr == "astext" and _strips_messages(ap, unparse(s.value.func.value), s.value)]
            if clean and len(clean) == len(stores):
                found = (ci, ap, clean[0])
                break
            why.append(f"{cname} stores a title text from which system_message nodes were not removed")
        if found:
            rep.ok(R, k, found[1].module.site(found[2]), f"{found[0].name} (after DocTitle) stores the title text of a copy without system_message nodes")
        else:
            rep.violation(R, k, gt.site(), "docutils' DocTitle sets document['title'] from astext() of the promoted title, warning text included, and no transform of the docutils front end recomputes it without the system_message nodes" + (": " + "; ".join(why) if why else "") + " - the title attribute (HTML <title>) differs between the suppressed and the unsuppressed run")
    else:
        rep.listed(R, "docutils DocTitle|document['title'] = document[0].astext()", "docutils/transforms/frontmatter.py", "not found in the installed docutils: no obligation on the front end")
    # (d) no message node on the document root once the body is rendered
    g = get_callgraph(corpus)
    try:
        fin = corpus.func("mdit_to_docutils.base:DocutilsRenderer._render_finalise")
    except Exception:
        fin = None
    after_body = set(g.reachable([fin])) if fin is not None else set()
    em = _emissions(corpus)
    for fi, call, kind in em.sites:
        a = kwarg(call, "append_to")
        if a is None or unparse(a) != "self.document":
            continue
        k = f"{fi.fq}|append_to=self.document"
        if fi.fq in after_body:
            rep.violation(R, k, fi.module.site(call), "the message node is appended to the document root after the body: docutils promotes a lone top-level section to the document title only if it is the root's sole child, so the heading stays a section unless the warning is suppressed (append to the open section instead)")
        else:
            rep.listed(R, k, fi.module.site(call), "appended to the document root while rendering")
    if fin is not None:
        rep.ok(R, f"{fin.fq}|no message node on the document root", fin.site(), f"{len(after_body)} function(s) run after the body")


# -- R9: text elements that docutils / Sphinx read as text leave the renderer without message nodes --------------
#
# Inline renderers append a warning's system_message INSIDE the element being rendered.  docutils' and Sphinx's
# collectors read some element classes as text (astext / Sphinx's clean_astext, which keeps system messages) BEFORE
# system messages are filtered, so such an element must be handed on without them (rST places them after it).
COLLECTOR_READ = {
    "title": "docutils DocTitle (document['title']); Sphinx TitleCollector, toctree / toc entries, std labels of sections, tables, admonitions",
    "caption": "Sphinx std domain: the label text of a figure / code block (get_numfig_title)",
    "rubric": "Sphinx std domain process_doc: the label text of a labelled rubric",
    "term": "Sphinx std domain process_doc: the label text of a labelled definition list; make_glossary_term",
    "field_name": "Sphinx std domain process_doc: the label text of a labelled field list",
}


def _render_targets(fi: FunctionInfo) -> list[tuple[ast.With, str, ast.Call | None]]:
    """``with <renderer>.current_node_context(X[, append=True]): ... render_children(...) / nested_render_text(...)``
    -> (with statement, X, the constructor call X is bound to)."""
    out = []
    if fi.is_lambda:
        return out
    for w in fi.local_nodes():
        if not isinstance(w, ast.With):
            continue
        for item in w.items:
            c = item.context_expr
            if not (isinstance(c, ast.Call) and isinstance(c.func, ast.Attribute) and c.func.attr == "current_node_context" and c.args and isinstance(c.args[0], ast.Name)):
                continue
            renders = [x for st in w.body for x in ast.walk(st) if isinstance(x, ast.Call) and isinstance(x.func, ast.Attribute) and x.func.attr in ("render_children", "nested_render_text", "_render_tokens")]
            # only the innermost context counts for a render call
            inner = [x for st in w.body for x in ast.walk(st) if isinstance(x, ast.With) and any(isinstance(i.context_expr, ast.Call) and isinstance(i.context_expr.func, ast.Attribute) and i.context_expr.func.attr == "current_node_context" for i in x.items)]
            inner_calls = {id(y) for iw in inner for st in iw.body for y in ast.walk(st)}
            if not [x for x in renders if id(x) not in inner_calls]:
                continue
            name = c.args[0].id
            defs = [n for n in fi.local_nodes() if isinstance(n, ast.Assign) and len(n.targets) == 1 and _is_name(n.targets[0], name) and isinstance(n.value, ast.Call)]
            ctor = None
            for d in sorted(defs, key=lambda n: n.lineno):
                if d.lineno <= w.lineno:
                    ctor = d.value
            out.append((w, name, ctor))
    return out


def _removal_loops_raw(fi: FunctionInfo, root: str) -> list[ast.For]:
    """Loops that take every system_message out of ``root``'s subtree (``for m in findall(root)(sm): m.parent.remove(m)``)."""
    out = []

    def yields(it: ast.expr, depth: int = 0) -> bool:
        if depth > 3:
            return False
        if isinstance(it, ast.Call) and isinstance(it.func, ast.Name) and it.func.id in ("list", "tuple", "reversed") and it.args:
            return yields(it.args[0], depth + 1)
        if isinstance(it, ast.Name):
            defs = [n for n in fi.local_nodes() if isinstance(n, ast.Assign) and len(n.targets) == 1 and _is_name(n.targets[0], it.id)]
            return len(defs) == 1 and yields(defs[0].value, depth + 1)
        if isinstance(it, ast.Call) and it.args and _selects_messages(it.args[0], fi):
            f = it.func
            if isinstance(f, ast.Call) and f.args and unparse(f.args[0]) == root:
                return True
            if isinstance(f, ast.Attribute) and f.attr in ("findall", "traverse") and unparse(f.value) == root:
                return True
        return False

    for n in fi.local_nodes():
        if isinstance(n, ast.For) and isinstance(n.target, ast.Name) and yields(n.iter):
            v = n.target.id
            if any(isinstance(c, ast.Call) and isinstance(c.func, ast.Attribute) and c.func.attr == "remove" and unparse(c.func.value) == f"{v}.parent" and c.args and _is_name(c.args[0], v) for c in ast.walk(n)):
                out.append(n)
    return out


def _detacher_param(h: FunctionInfo) -> str | None:
    """A shared helper ``detach(node)`` that removes every system_message below the node it is given, on every path
    (and usually returns them for the caller to place elsewhere) -> the name of that parameter."""
    if h.is_lambda:
        return None
    cache = getattr(h, "_c14_detacher", "?")
    if cache != "?":
        return cache
    res = None
    for p in [q for q in h.params if q not in ("self", "cls")][:1]:
        loops = _removal_loops_raw(h, p)
        if loops and not _uncovered_cases(h, "ENTRY", list(loops)):
            res = p
    h._c14_detacher = res  # type: ignore[attr-defined]
    return res


def _detach_calls(fi: FunctionInfo, root: str) -> list[ast.Call]:
    """Calls in ``fi`` of a detaching helper on ``root``."""
    corpus = _CORPUS[0]
    if corpus is None or fi.is_lambda:
        return []
    out = []
    for c in fi.local_nodes():
        if not (isinstance(c, ast.Call) and c.args and not isinstance(c.args[0], ast.Starred) and unparse(c.args[0]) == root and isinstance(c.func, (ast.Name, ast.Attribute))):
            continue
        try:
            hs = _resolver_of(corpus)(c, fi)
        except Exception:
            hs = []
        if not hs and isinstance(c.func, ast.Attribute):
            # a method reached through an attribute the call graph cannot type (``self._renderer._detach(x)``):
            # every function of that name in the package
            hs = [h for h in corpus.all_functions() if not h.is_lambda and h.name == c.func.attr]
        if hs and all(_detacher_param(h) is not None for h in hs):
            bound = [_bind_call(c, h) for h in hs]
            if all(b is not None and unparse(b.get(_detacher_param(h), ast.Constant(value=None))) == root for b, h in zip(bound, hs)):
                out.append(c)
    return out


def _removal_loops(fi: FunctionInfo, root: str) -> list[ast.AST]:
    """What takes every system_message out of ``root``'s subtree in ``fi``: a removal loop, or a call of a detaching helper."""
    return list(_removal_loops_raw(fi, root)) + list(_detach_calls(fi, root))


def _sweeper_summary(h: FunctionInfo) -> tuple[str, str | int] | None:
    """A helper that takes the message nodes out of every element of a class below the node it is given:
    ``for E in findall(<node param>)(<class>): for m in findall(E)(system_message): m.parent.remove(m)``.
    -> (node parameter, class name or index of the class parameter).  Both walks must be subtree walks (findall / traverse)."""
    if h.is_lambda:
        return None
    params = [p for p in h.params if p not in ("self", "cls")]
    for lp in h.local_nodes():
        if not (isinstance(lp, ast.For) and isinstance(lp.target, ast.Name)):
            continue
        it = lp.iter
        while isinstance(it, ast.Call) and isinstance(it.func, ast.Name) and it.func.id in ("list", "tuple", "reversed") and it.args:
            it = it.args[0]
        if not (isinstance(it, ast.Call) and len(it.args) == 1):
            continue
        f = it.func
        root = unparse(f.args[0]) if isinstance(f, ast.Call) and f.args and (dotted(f.func) or "").split(".")[-1] == "findall" else (unparse(f.value) if isinstance(f, ast.Attribute) and f.attr in ("findall", "traverse") else None)
        if root not in params:
            continue
        if not any(any(a is lp for a in ancestors(l2)) for l2 in _removal_loops(h, lp.target.id)):
            continue
        c = it.args[0]
        if isinstance(c, ast.Name) and c.id in params:
            return root, params.index(c.id)
        d = dotted(c)
        if d is not None:
            return root, d.split(".")[-1]
    return None


def _attached_under(fi: FunctionInfo) -> dict[str, set[str]]:
    """child name -> names of the nodes it is attached under in this function (transitively): ``P += C``, ``P.append(C)``,
    ``nodes.K(.., C)``, and ``with current_node_context(C, append=True)`` inside the context of P."""
    up: dict[str, set[str]] = {}

    def ctx_target(w: ast.With) -> ast.expr | None:
        for item in w.items:
            c = item.context_expr
            if isinstance(c, ast.Call) and isinstance(c.func, ast.Attribute) and c.func.attr == "current_node_context" and c.args:
                return c.args[0]
        return None

    def current_node_at(n: ast.AST) -> str | None:
        for a in ancestors(n):
            if isinstance(a, ast.With):
                tgt = ctx_target(a)
                if isinstance(tgt, ast.Name):
                    return tgt.id
        return None

    def parent_name(e: ast.expr, at: ast.AST) -> str | None:
        if isinstance(e, ast.Name):
            return e.id
        if unparse(e) == "self.current_node":
            return current_node_at(at)
        return None

    def add(c: ast.expr, p: str | None) -> None:
        names = [c] if isinstance(c, ast.Name) else ([x.value if isinstance(x, ast.Starred) else x for x in c.elts] if isinstance(c, (ast.List, ast.Tuple)) else [])
        for x in names:
            if isinstance(x, (ast.List, ast.Tuple)):
                add(x, p)
            elif isinstance(x, ast.Name) and p and p != x.id:
                up.setdefault(x.id, set()).add(p)

    for n in fi.local_nodes():
        if isinstance(n, ast.AugAssign) and isinstance(n.op, ast.Add):
            add(n.value, parent_name(n.target, n))
        elif isinstance(n, ast.Call) and isinstance(n.func, ast.Attribute) and n.func.attr in ("append", "extend", "insert") and n.args:
            add(n.args[-1], parent_name(n.func.value, n))
        elif isinstance(n, ast.Assign) and len(n.targets) == 1 and isinstance(n.targets[0], ast.Name) and isinstance(n.value, ast.Call) and (dotted(n.value.func) or "").startswith("nodes."):
            for a in n.value.args[1:]:
                add(a.value if isinstance(a, ast.Starred) else a, n.targets[0].id)
        elif isinstance(n, ast.With):
            for item in n.items:
                c = item.context_expr
                if isinstance(c, ast.Call) and isinstance(c.func, ast.Attribute) and c.func.attr == "current_node_context" and c.args and isinstance(c.args[0], ast.Name):
                    if any(k.arg == "append" and is_const(k.value, True) for k in c.keywords) or (len(c.args) > 1 and is_const(c.args[1], True)):
                        up.setdefault(c.args[0].id, set()).add(current_node_at(n) or "\0current node")
    changed = True
    while changed:
        changed = False
        for c, ps in list(up.items()):
            for p in list(ps):
                for pp in up.get(p, ()):
                    if pp not in ps and pp != c:
                        ps.add(pp)
                        changed = True
    return up


def _uncovered_cases(fi: FunctionInfo, start: ast.stmt, dischargers: list[ast.AST], fixed: dict[str, bool] | None = None) -> list[dict[str, bool]]:
    """The cases in which some path from ``start`` to the function's exit runs none of the dischargers.  A case is a
    valuation of the flags the function branches on (a whole-condition name that is a parameter or assigned once:
    ``if make_terms:`` ... ``if not make_terms:`` are taken consistently); ``fixed`` pins flags (a caller's knowledge).
    [] = every feasible path is covered; [{}] = uncovered whatever the flags."""
    cfg = get_cfg(fi)
    dset = set()
    for d in dischargers:
        try:
            dset.add(cfg.stmt_of(d))
        except Exception:
            pass
    flags: dict[str, list[tuple[ast.If, bool]]] = {}
    for n in fi.local_nodes():
        if isinstance(n, ast.If):
            core, neg = _strip_not(n.test)
            if isinstance(core, ast.Name):
                stores = [s for s in fi.local_nodes() if isinstance(s, ast.Name) and s.id == core.id and isinstance(s.ctx, ast.Store)]
                if len(stores) <= 1:
                    flags.setdefault(core.id, []).append((n, not neg))
    fixed = {k: v for k, v in (fixed or {}).items() if k in flags}
    free = [k for k in flags if k not in fixed][:3]
    out: list[dict[str, bool]] = []
    for bits in range(1 << len(free)):
        val = dict(fixed)
        val.update({nm: bool(bits >> i & 1) for i, nm in enumerate(free)})
        blocked = set()
        for nm, v in val.items():
            for ifst, positive in flags[nm]:
                holds = v if positive else not v
                blocked.add(("F" if holds else "T", ifst))
        if cfg.paths_avoiding(start, "EXIT", lambda x: x in dset or x in blocked):
            out.append({nm: val[nm] for nm in free})
    # flags that do not matter (uncovered for both values) are dropped from the description
    for nm in free:
        if all(any(o != c and {k: v for k, v in o.items() if k != nm} == {k: v for k, v in c.items() if k != nm} for o in out) for c in out) and out:
            out = [dict(s) for s in {tuple(sorted((k, v) for k, v in c.items() if k != nm)) for c in out}]
    return out


def _dischargers_cover_all_paths(fi: FunctionInfo, start: ast.stmt, dischargers: list[ast.AST]) -> bool:
    return bool(dischargers) and not _uncovered_cases(fi, start, dischargers)


def _sweeps_in(corpus: Corpus, fi: FunctionInfo, cls: str | None, names: set[str], after_line: int = 0) -> list[ast.Call]:
    """Calls in ``fi`` of a sweeping helper for elements of class ``cls`` that are given one of ``names``."""
    out = []
    for c in fi.local_nodes():
        if not isinstance(c, ast.Call) or c.lineno < after_line:
            continue
        try:
            hs = _resolver_of(corpus)(c, fi)
        except Exception:
            hs = []
        if len(hs) != 1:
            continue
        summ = _sweeper_summary(hs[0])
        bound = _bind_call(c, hs[0]) if summ is not None else None
        if not bound or summ[0] not in bound:
            continue
        hparams = [p for p in hs[0].params if p not in ("self", "cls")]
        swept = summ[1] if isinstance(summ[1], str) else (dotted(bound.get(hparams[summ[1]])) or "").split(".")[-1]
        given = bound[summ[0]]
        if swept == cls and isinstance(given, ast.Name) and given.id in names:
            out.append(c)
    return out


def _current_node_at(n: ast.AST) -> str | None:
    for a in ancestors(n):
        if isinstance(a, ast.With):
            for item in a.items:
                c = item.context_expr
                if isinstance(c, ast.Call) and isinstance(c.func, ast.Attribute) and c.func.attr == "current_node_context" and c.args and isinstance(c.args[0], ast.Name):
                    return c.args[0].id
    return None


def _class_of_ctor(ctor: ast.Call | None) -> str | None:
    d = dotted(ctor.func) if ctor is not None else None
    return d.split(".")[-1] if d and d.startswith("nodes.") else None


@rule("C14.R9")
def r9_collector_read_elements(corpus: Corpus, rep: Report, tier: str):
    rep.rule("C14.R9", "elements that docutils / Sphinx read as text (title, caption, rubric, term, field name, bibliographic field body, the text nodes of inline_text) are handed on without the message nodes rendered into them")
    R = "C14.R9"
    _CORPUS[0] = corpus
    callers = _callers(corpus)
    n_sites = 0
    for fi in corpus.all_functions():
        if fi.is_lambda or not fi.module.name.startswith("myst_parser.") or fi.module.name.endswith("._docs"):
            continue
        targets = _render_targets(fi)
        if not targets:
            continue
        cfg = get_cfg(fi)
        for w, name, ctor in targets:
            cls = _class_of_ctor(ctor)
            why = COLLECTOR_READ.get(cls or "")
            kind = cls
            if why is None and cls == "paragraph":
                # a paragraph that becomes the body of a (bibliographic) field: docutils DocInfo / Sphinx MetadataCollector read it as text
                if any(isinstance(c, ast.Call) and _class_of_ctor(c) == "field_body" and any(_is_name(x, name) for a in c.args for x in ast.walk(a)) for c in fi.local_nodes()):
                    why, kind = "docutils DocInfo (authors, ...) and Sphinx's MetadataCollector read the body of a bibliographic field as text", "field body"
            if why is None and any(isinstance(r, ast.Return) and r.value is not None and any(unparse(x) == f"{name}.children" for x in ast.walk(r.value)) for r in fi.local_nodes()):
                why, kind = "the text nodes a directive gets from state.inline_text and names its element by (docutils' Inliner returns the messages separately)", "inline_text nodes"
            if why is None:
                continue
            n_sites += 1
            k = f"{fi.module.name}|{kind} with inline content"  # (not the function: the code may move into a helper)
            site = fi.module.site(w)
            loops = _removal_loops(fi, name)
            # a sweeping helper that is handed the element, or an ancestor it is attached under, together with its class
            up = _attached_under(fi)
            sweeps = _sweeps_in(corpus, fi, cls, {name} | up.get(name, set()), w.lineno)
            # every (feasible) path from the rendering to the end of the function takes the messages out
            open_cases = _uncovered_cases(fi, w, list(loops) + sweeps) if (loops or sweeps) else [{}]
            if not open_cases:
                rep.ok(R, k, site, "the message nodes are taken out of it after the rendering, on every path" + (f" (by {len(sweeps)} call(s) of a sweeping helper)" if sweeps else ""))
                continue
            # the element was built in a helper and attached to the caller's current node: the caller may sweep the
            # remaining cases (the flag is handed down as an argument) after the call, below the node that was current
            cs0 = [(cf, cl) for cf, cl in callers.get(fi.fq, []) if not cf.is_lambda]
            if cs0 and "\0current node" in up.get(name, set()) and all(set(c) <= set(fi.params) for c in open_cases):
                done = True
                for cfi, call in cs0:
                    bound = _bind_call(call, fi)
                    cur = _current_node_at(call)
                    if bound is None or cur is None:
                        done = False
                        break
                    cup = _attached_under(cfi)
                    csweeps = _sweeps_in(corpus, cfi, cls, {cur} | cup.get(cur, set())) + list(_removal_loops(cfi, cur))
                    try:
                        cstart = get_cfg(cfi).stmt_of(call)
                    except Exception:
                        done = False
                        break
                    for case in open_cases:
                        fixed = {}
                        for p_, v_ in case.items():
                            a_ = bound.get(p_)
                            if isinstance(a_, ast.Name):
                                fixed[a_.id] = v_
                            elif isinstance(a_, ast.Constant) and bool(a_.value) != v_:
                                fixed = None  # this call never runs the helper in that case
                                break
                        if fixed is None:
                            continue
                        if not csweeps or _uncovered_cases(cfi, cstart, csweeps, fixed):
                            done = False
                            break
                    if not done:
                        break
                if done:
                    rep.ok(R, k, site, f"taken out in {fi.name} in part; in the remaining case(s) {open_cases} every caller ({len(cs0)}) sweeps the node it was attached under after the call")
                    continue
            # or the function hands a container on and every caller takes them out of that
            rets = [r for r in fi.local_nodes() if isinstance(r, ast.Return) and isinstance(r.value, ast.Name)]
            cs = callers.get(fi.fq, [])
            handed = bool(rets) and bool(cs)
            for cfi, call in cs:
                p = parent(call)
                var = p.targets[0].id if isinstance(p, ast.Assign) and len(p.targets) == 1 and isinstance(p.targets[0], ast.Name) else None
                if var is None or cfi.is_lambda:
                    handed = False
                    break
                ret_cls = {_class_of_ctor(d.value) for r in rets for d in fi.local_nodes() if isinstance(d, ast.Assign) and len(d.targets) == 1 and _is_name(d.targets[0], r.value.id) and isinstance(d.value, ast.Call)}
                cl = list(_removal_loops(cfi, var))
                if len(ret_cls) == 1 and None not in ret_cls:
                    # a sweep of every <class of the container> below the container reaches the container itself
                    cl += _sweeps_in(corpus, cfi, next(iter(ret_cls)), {var})
                if not cl or _uncovered_cases(cfi, p, cl):
                    handed = False
                    break
            if handed:
                rep.ok(R, k, site, f"every caller ({len(cs)}) takes the message nodes out of the returned container")
            elif loops:
                rep.violation(R, k, site, f"{fi.qualname}: inline content is rendered into the {kind} `{name}` and the message nodes are taken out only on some paths: on the others a warning's text stays inside it ({why}), so the text read from it differs between the suppressed and the unsuppressed run")
            else:
                rep.violation(R, k, site, f"{fi.qualname}: inline content is rendered into the {kind} `{name}` and the message nodes a warning puts there are never moved out ({why}): the text read from it differs between the suppressed and the unsuppressed run")
    rep.expect_min(R, 4, "collector-read elements that inline content is rendered into (title, term, field body, inline_text nodes on the reviewed tree)")
    # the nodes a directive returns: captions and titles built by directives (figure, code-block, table, figure-md, ...)
    rd = corpus.func("mdit_to_docutils.base:DocutilsRenderer.run_directive")
    k = f"{rd.fq}|captions and titles of directive output"
    best = None
    for lp in (n for n in rd.local_nodes() if isinstance(n, ast.For)):
        # for T in findall(N)(P): ... for m in findall(T)(system_message): m.parent.remove(m)
        it = lp.iter
        while isinstance(it, ast.Call) and isinstance(it.func, ast.Name) and it.func.id in ("list", "tuple", "reversed") and it.args:
            it = it.args[0]
        if not (isinstance(it, ast.Call) and it.args and isinstance(lp.target, ast.Name)):
            continue
        pred = _class_predicate(it.args[0], rd)
        classes = {(dotted(x) or "").split(".")[-1] for x in ast.walk(pred[0]) if isinstance(x, (ast.Attribute, ast.Name))} if pred is not None and pred[1] else ({(dotted(it.args[0]) or "").split(".")[-1]} if dotted(it.args[0]) else set())
        inner = [l2 for l2 in _removal_loops(rd, lp.target.id) if any(a is lp for a in ancestors(l2))]
        if inner and classes & {"caption", "title"}:
            outer = next((a for a in ancestors(lp) if isinstance(a, ast.For)), None)
            over_result = outer is not None and isinstance(outer.target, ast.Name) and isinstance(it.func, (ast.Call, ast.Attribute)) and outer.target.id in _names(it.func)
            best = (lp, classes, over_result, outer)
    if best is None:
        rep.violation(R, k, rd.site(), "run_directive hands the nodes a directive returns on without taking the message nodes out of their captions / titles: Sphinx names a figure, code block or table by that text before it filters system messages")
    else:
        lp, classes, over_result, outer = best
        missing = {"caption", "title"} - classes
        if missing:
            rep.violation(R, k, rd.module.site(lp), f"only {sorted(classes & {'caption', 'title'})} of a directive's output are cleared of message nodes, not {sorted(missing)}: Sphinx names the element by that text as well")
        elif not over_result or unparse(outer.iter) != "result":
            rep.error(R, f"run_directive: cannot relate the caption/title sweep to the list of nodes the directive returned (`{short(outer.iter, 30) if outer is not None else '?'}`)")
        else:
            rep.ok(R, k, rd.module.site(lp), "every caption and title below the returned nodes is cleared of message nodes")


# -- R10 ----------------------------------------------------------------------------------
def _subtype_roots(e: ast.expr | None, h: FunctionInfo, depth: int = 0) -> set[str]:
    """Parameters of ``h`` whose value is (one alternative of) the expression: through .value, conditional
    expressions and once-assigned locals."""
    if e is None or depth > 6:
        return set()
    if isinstance(e, ast.Attribute) and e.attr == "value":
        return _subtype_roots(e.value, h, depth + 1)
    if isinstance(e, ast.IfExp):
        return _subtype_roots(e.body, h, depth + 1) | _subtype_roots(e.orelse, h, depth + 1)
    if isinstance(e, ast.Name):
        if e.id in h.params:
            return {e.id}
        if h.is_lambda:
            return set()
        defs = [n for n in h.local_nodes() if isinstance(n, ast.Assign) and any(_is_name(t, e.id) for t in n.targets)]
        if len(defs) == 1:
            return _subtype_roots(defs[0].value, h, depth + 1)
    return set()


def _declared_tag_fate(em: Emissions, resolver, h: FunctionInfo, p: str, depth: int = 0):
    """What becomes of the catalogue member a caller hands to parameter ``p`` of ``h``:
    ("emitted",) - it is the subtype of an emission; ("fixed", [(site, resolutions)]) - h emits, but under tags
    that do not depend on p; ("none",) - h does not emit with it (not a warning wrapper as far as can be seen)."""
    own = [(fi, call, kind) for fi, call, kind in em.sites if fi is h]
    for _, call, kind in own:
        if p in _subtype_roots(em.subtype_arg(call, kind), h):
            return ("emitted",)
    own_calls = {id(c) for _, c, _ in own}
    if depth < 3:
        body = h.node.body if h.is_lambda else h.node
        for c in (calls_in(body) if h.is_lambda else [n for n in h.local_nodes() if isinstance(n, ast.Call)]):
            if id(c) in own_calls:
                continue
            try:
                ts = resolver(c, h)
            except Exception:
                ts = []
            for h2 in ts:
                if h2.fq in em.cw_private or h2 is h:
                    continue
                bound = _bind_call(c, h2)
                if bound is None:
                    continue
                for p2, a in bound.items():
                    if p in _subtype_roots(a, h) and _declared_tag_fate(em, resolver, h2, p2, depth + 1)[0] == "emitted":
                        return ("emitted",)
    if own:
        return ("fixed", [(h.module.site(call), em.resolve(em.subtype_arg(call, kind), h)) for _, call, kind in own])
    return ("none",)


@rule("C14.R10")
def r10_declared_tag_is_emitted(corpus: Corpus, rep: Report, tier: str):
    rep.rule("C14.R10", "a catalogue member handed to a warning wrapper / callback (the tag the call site declares) is the subtype the wrapper emits, in every function bound to it (both front ends), or the wrapper's fixed tag equals every declared one")
    R = "C14.R10"
    em = _emissions(corpus)
    resolver = _resolver_of(corpus)
    callers = _callers(corpus)
    for h in corpus.all_functions():
        if h.fq in em.cw_private:
            continue  # create_warning and its private helpers: R4 / R6
        declared: dict[str, dict[str, str]] = {}
        for cfi, call in callers.get(h.fq, []):
            bound = _bind_call(call, h)
            if bound is None:
                continue
            for p, a in bound.items():
                d = dotted(a)
                if d and d.startswith("MystWarnings.") and d.count(".") == 1:
                    res = em.resolve(a, cfi)
                    if len(res) == 1 and res[0][0] == "member":
                        declared.setdefault(p, {}).setdefault(res[0][1], cfi.module.site(call))
        for p, decl in sorted(declared.items()):
            fate = _declared_tag_fate(em, resolver, h, p)
            k = f"{h.fq}|declared tag `{p}` is the emitted subtype"
            if fate[0] == "emitted":
                rep.ok(R, k, h.site(), f"{len(decl)} declared member(s) forwarded to the emission")
            elif fate[0] == "none":
                rep.listed(R, k, h.site(), "receives catalogue members but emits nothing with them (not a warning wrapper)")
            else:
                emitted: set[str] = set()
                unknown = []
                for site, res in fate[1]:
                    for status, detail in res:
                        if status in ("member", "value-of-member"):
                            emitted.add(detail)
                        else:
                            unknown.append(f"{site}: {detail}")
                if unknown:
                    rep.error(R, f"{h.fq}: ignores the declared tag `{p}` and the tag it emits instead is not understood: " + "; ".join(unknown[:3]))
                    continue
                wrong = {m: s for m, s in decl.items() if emitted != {m}}
                if wrong:
                    m0 = sorted(wrong)[0]
                    rep.violation(R, k, h.site(), f"`{p}` is ignored: the warning declared as MystWarnings.{m0} at {wrong[m0]}" + (f" (and {len(wrong) - 1} more)" if len(wrong) > 1 else "") + f" is emitted under {sorted('MystWarnings.' + x for x in emitted)}; another function bound to the same call site may still emit the declared tag, so the front ends disagree and suppressing the declared tag does not remove it")
                else:
                    rep.ok(R, k, h.site(), "the fixed tag equals every declared one")
    rep.expect_min(R, 1, "wrappers / callbacks that receive a catalogue member (the renderer wrapper and the two front-matter callbacks on the pinned tree; the callbacks drop out when they reach merge_file_level through an intermediate function the call graph does not follow)")


RULES = [r10_declared_tag_is_emitted, r1_typed_emission, r2_untyped_closed_list, r3_no_member_loses_last_site, r4_suppression_confined, r5_return_value_unused, r6_tag_format, r7_documented_catalogue, r8_messages_are_not_content, r9_collector_read_elements]


def mutants(corpus: Corpus):
    import copy

    out: list = []
    base = corpus.mod("mdit_to_docutils.base")
    w = corpus.mod("warnings_")

    def ind_of(mod, st: ast.stmt) -> str:
        line = mod.lines[st.lineno - 1]
        return line[: len(line) - len(line.lstrip())]

    # 1. a literal subtype under the myst type
    f = base.func("DocutilsRenderer.render_s")
    c = find_node(f, lambda n: isinstance(n, ast.Attribute) and unparse(n) == "MystWarnings.STRIKETHROUGH")
    if c is not None:
        out.append(Mutant("c14-literal-subtype", "C14.R1", base.rel, splice(base.src, c, '"strike"'), expect="render_s", canary=True))
        out.append(Mutant("c14-unknown-member", "C14.R1", base.rel, splice(base.src, c, "MystWarnings.STRIKE"), expect="render_s"))
        out.append(Mutant("c14-last-site-lost", "C14.R3", base.rel, splice(base.src, c, "MystWarnings.NOT_SUPPORTED"), expect="STRIKETHROUGH"))
    else:
        out.append(("c14-literal-subtype", "render_s no longer names MystWarnings.STRIKETHROUGH"))
    # 2. ParseWarnings constructed with a foreign tag
    d = corpus.mod("parsers.directives")
    f = d.func("_parse_directive_options")
    c = find_node(f, lambda n: isinstance(n, ast.Attribute) and unparse(n) == "MystWarnings.DIRECTIVE_OPTION_COMMENTS")
    if c is not None:
        out.append(Mutant("c14-parsewarnings-literal", "C14.R1", d.rel, splice(d.src, c, '"comments"'), expect="_warning.type"))
    else:
        out.append(("c14-parsewarnings-literal", "_parse_directive_options no longer names DIRECTIVE_OPTION_COMMENTS"))
    # 2b. (seed class) a non-MyST tag loses its wtype: 'ref.footnote' becomes 'myst.footnote'
    tr = corpus.mod("mdit_to_docutils.transforms")
    f = tr.func("UnreferencedFootnotesDetector.apply")
    c = find_node(f, lambda n: isinstance(n, ast.Call) and dotted(n.func) == "create_warning" and is_const(kwarg(n, "wtype"), "ref"))
    if c is not None:
        c2 = copy.deepcopy(c)
        c2.keywords = [k for k in c2.keywords if k.arg != "wtype"]
        out.append(Mutant("c14-ref-footnote-wtype-dropped", "C14.R1", tr.rel, splice(tr.src, c, ast.unparse(c2)), expect="UnreferencedFootnotesDetector.apply"))
    else:
        out.append(("c14-ref-footnote-wtype-dropped", "no create_warning(wtype='ref') in UnreferencedFootnotesDetector.apply"))
    # 3. an untyped reporter warning
    f = base.func("DocutilsRenderer.render_link_path")
    c = find_node(f, lambda n: isinstance(n, ast.Call) and unparse(n.func) == "self.create_warning")
    if c is not None:
        out.append(Mutant("c14-untyped-reporter-warning", "C14.R2", base.rel, splice(base.src, c, 'self.reporter.warning("`path:` scheme not yet supported in docutils", line=token_line(token, 0))'), expect="render_link_path", canary=True))
    else:
        out.append(("c14-untyped-reporter-warning", "render_link_path no longer calls self.create_warning"))
    # 4. create_warning: node built before the suppression test / test on the wrong strings / suppressed branch with effects
    f = w.func("create_warning")
    tests = sorted([n for n in f.local_nodes() if isinstance(n, ast.If) and "_is_suppressed_warning" in unparse(n.test)], key=lambda n: n.lineno)
    if len(tests) == 2:
        t0, t = tests
        out.append(Mutant("c14-docutils-test-dropped", "C14.R4", w.rel, splice(w.src, t.test, "False"), expect="create_warning", canary=True))
        call = [c for c in ast.walk(t0.test) if isinstance(c, ast.Call)][0]
        out.append(Mutant("c14-suppress-args-swapped", "C14.R4", w.rel, splice(w.src, call, f"_is_suppressed_warning({unparse(call.args[1])}, {unparse(call.args[0])}, {unparse(call.args[2])})"), expect="order"))
        call = [c for c in ast.walk(t.test) if isinstance(c, ast.Call)][0]
        out.append(Mutant("c14-suppress-test-on-raw-arguments", "C14.R4", w.rel, splice(w.src, call, f"_is_suppressed_warning(wtype, subtype, {unparse(call.args[2])})"), expect="arguments"))
        out.append(Mutant("c14-suppress-test-fixed-type", "C14.R4", w.rel, splice(w.src, call.args[0], '"myst"'), expect="arguments"))
        ret = t.body[-1]
        i = ind_of(w, ret)
        out.append(Mutant("c14-suppressed-branch-still-attaches", "C14.R4", w.rel, splice(w.src, ret, f"if append_to is not None:\n{i}    append_to.append(nodes.comment('', message))\n{i}return None"), expect="create_warning"))
    else:
        out.append(("c14-docutils-test-dropped", f"create_warning has {len(tests)} suppression tests, expected 2"))
    # 4b. near-synonyms: truth value instead of None test for the optional parent
    f = w.func("create_warning")
    gi = find_node(f, lambda n: isinstance(n, ast.If) and isinstance(n.test, ast.Compare) and isinstance(n.test.left, ast.Name) and n.test.left.id in f.params and isinstance(n.test.ops[0], ast.IsNot) and is_const(n.test.comparators[0], None) and any(isinstance(c, ast.Call) and (dotted(c.func) or "") == f"{n.test.left.id}.append" for c in ast.walk(n)))
    if gi is not None:
        out.append(Mutant("c14-append-parent-truth-tested", "C14.R4", w.rel, splice(w.src, gi.test, gi.test.left.id), expect="guard"))
    else:
        out.append(("c14-append-parent-truth-tested", "create_warning has no `if <parent> is not None: <parent>.append(...)`"))
    # 5. _is_suppressed_warning: accepted forms and the scan of the whole list
    f = w.func("_is_suppressed_warning")
    p_list = f.params[2] if len(f.params) > 2 else None
    tup = find_node(f, lambda n: isinstance(n, ast.Tuple) and any(isinstance(e, ast.Constant) and e.value == "*" for e in n.elts))
    if tup is not None:
        out.append(Mutant("c14-star-form-dropped", "C14.R4", w.rel, splice(w.src, tup, "(None, subtype)"), expect="accepted forms"))
    else:
        out.append(("c14-star-form-dropped", "no tuple with '*' in _is_suppressed_warning"))
    sp = find_node(f, lambda n: isinstance(n, ast.Call) and isinstance(n.func, ast.Attribute) and n.func.attr == "split")
    if sp is not None:
        out.append(Mutant("c14-split-all-dots", "C14.R4", w.rel, splice(w.src, sp, f"{unparse(sp.func)}('.')"), expect="accepted forms"))
        asg = parent(sp)
        if isinstance(asg, ast.Assign) and isinstance(asg.targets[0], ast.Tuple) and len(asg.targets[0].elts) == 2:
            a, b = asg.targets[0].elts
            out.append(Mutant("c14-split-roles-swapped", "C14.R4", w.rel, splice(w.src, asg.targets[0], f"{unparse(b)}, {unparse(a)}"), expect="roles"))
        else:
            out.append(("c14-split-roles-swapped", "split result is not unpacked into a pair"))
    else:
        out.append(("c14-split-all-dots", "no split call in _is_suppressed_warning"))
    dot = find_node(f, lambda n: isinstance(n, ast.Compare) and is_const(n.left, ".") and isinstance(n.ops[0], ast.In))
    if dot is not None:
        out.append(Mutant("c14-dot-guard-inverted", "C14.R4", w.rel, splice(w.src, dot, f"'.' not in {unparse(dot.comparators[0])}"), expect="bare type"))
    else:
        out.append(("c14-dot-guard-inverted", "no `'.' in entry` test"))
    if dot is not None and isinstance(parent(dot), ast.If) and len(parent(dot).body) == 1 and len(parent(dot).orelse) == 1 and all(isinstance(s, ast.Assign) for s in parent(dot).body + parent(dot).orelse):
        # the same decomposition written as a conditional expression, with the arms exchanged
        ifs = parent(dot)
        a_t, a_f = ifs.body[0], ifs.orelse[0]
        if unparse(a_t.targets[0]) == unparse(a_f.targets[0]):
            out.append(Mutant("c14-condexpr-arms-exchanged", "C14.R4", w.rel, splice(w.src, ifs, f"{unparse(a_t.targets[0])} = ({unparse(a_f.value)}) if {unparse(dot)} else ({unparse(a_t.value)})"), expect="bare type"))
        else:
            out.append(("c14-condexpr-arms-exchanged", "the two branches assign different targets"))
    if dot is not None and isinstance(parent(dot), ast.If) and len(parent(dot).body) == 1 and isinstance(parent(dot).body[0], ast.Assign) and isinstance(parent(dot).body[0].targets[0], ast.Tuple) and len(parent(dot).body[0].targets[0].elts) == 2:
        # (seed class) the decomposition 'simplified' to str.partition: a bare entry now gets '' instead of None
        ifs = parent(dot)
        a_, b_ = (unparse(x) for x in ifs.body[0].targets[0].elts)
        out.append(Mutant("c14-partition-bare-sentinel-lost", "C14.R4", w.rel, splice(w.src, ifs, f"{a_}, _, {b_} = {unparse(dot.comparators[0])}.partition('.')"), expect="bare type"))
        i_ = ind_of(w, ifs)
        out.append(Mutant("c14-partition-sentinel-empty-string", "C14.R4", w.rel, splice(w.src, ifs, f"{a_}, sep_, rest_ = {unparse(dot.comparators[0])}.partition('.')\n{i_}{b_} = rest_ if sep_ else ''"), expect="bare type"))
    else:
        out.append(("c14-partition-bare-sentinel-lost", "the entry is no longer decomposed by `if '.' in entry: a, b = entry.split(...)`"))
    loop = find_node(f, lambda n: isinstance(n, ast.For) and p_list is not None and unparse(n.iter) == p_list)
    ifst = None
    if loop is not None:
        ifst = find_node(f, lambda n: isinstance(n, ast.If) and any(x is loop for x in ancestors(n)) and len(n.body) == 1 and isinstance(n.body[0], ast.Return) and is_const(n.body[0].value, True) and isinstance(n.test, ast.BoolOp) and isinstance(n.test.op, ast.And) and len(n.test.values) == 2)
        sentinel = find_node(f, lambda n: isinstance(n, ast.Assign) and isinstance(n.value, ast.Tuple) and len(n.value.elts) == 2 and is_const(n.value.elts[1], None) and any(x is loop for x in ancestors(n)))
        # (seed class) the scan rewritten as set look-ups of the spelled-out forms, the 'type.*' wildcard forgotten
        i0 = ind_of(w, loop)
        pt_, ps_ = f.params[0], f.params[1]
        out.append(Mutant("c14-set-lookup-without-wildcard", "C14.R4", w.rel, splice(w.src, loop, f"suppressed_ = frozenset({p_list})\n{i0}return {pt_} in suppressed_ or f'{{{pt_}}}.{{{ps_}}}' in suppressed_"), expect="star form"))
        out.append(Mutant("c14-first-entry-only", "C14.R4", w.rel, splice(w.src, loop.iter, f"{p_list}[:1]"), expect="loop range"))
        if sentinel is not None:
            out.append(Mutant("c14-bare-sentinel-not-accepted", "C14.R4", w.rel, splice(w.src, sentinel.value.elts[1], '""'), expect="bare type"))
        else:
            out.append(("c14-bare-sentinel-not-accepted", "no `(entry, None)` assignment in the loop"))
    else:
        out.append(("c14-first-entry-only", "no `for entry in <suppress list>` loop in _is_suppressed_warning"))
    if ifst is not None:
        i = ind_of(w, ifst)
        seg = ast.get_source_segment(w.src, ifst)
        ty, su = unparse(ifst.test.values[0]), unparse(ifst.test.values[1])
        # the seeded defect: the first entry of the right type decides
        out.append(Mutant("c14-first-type-match-decides", "C14.R4", w.rel, splice(w.src, ifst, f"if not ({ty}):\n{i}    continue\n{i}return {su}"), expect="every entry consulted", canary=True))
        out.append(Mutant("c14-else-return-false-in-loop", "C14.R4", w.rel, splice(w.src, ifst, f"{seg}\n{i}else:\n{i}    return False"), expect="every entry consulted"))
        out.append(Mutant("c14-break-after-type-match", "C14.R4", w.rel, splice(w.src, ifst, f"{seg}\n{i}if {ty}:\n{i}    break"), expect="every entry consulted|break"))
        tcmp = ifst.test.values[0]
        if isinstance(tcmp, ast.Compare) and isinstance(tcmp.ops[0], ast.Eq):
            l_, r_ = unparse(tcmp.left), unparse(tcmp.comparators[0])
            out.append(Mutant("c14-type-compared-by-prefix", "C14.R4", w.rel, splice(w.src, tcmp, f"{r_}.startswith({l_})"), expect="accepted forms|type"))
            out.append(Mutant("c14-type-compared-by-substring", "C14.R4", w.rel, splice(w.src, tcmp, f"{l_} in {r_}"), expect="accepted forms|type"))
        else:
            out.append(("c14-type-compared-by-prefix", "the type test is not an == comparison"))
        out.append(Mutant("c14-star-suppresses-any-type", "C14.R4", w.rel, splice(w.src, ifst, f"{seg}\n{i}if {unparse(ifst.test.values[1].left)} == '*':\n{i}    return True"), expect="accepted forms|type"))
    else:
        out.append(("c14-first-type-match-decides", "no `if <type test> and <sub-target test>: return True` in the loop"))
    # 6. behaviour depending on the return value
    f = base.func("DocutilsRenderer.render_s")
    st = find_node(f, lambda n: isinstance(n, ast.Expr) and isinstance(n.value, ast.Call) and unparse(n.value.func) == "self.create_warning")
    if st is not None:
        seg = ast.get_source_segment(base.src, st)
        out.append(Mutant("c14-branch-on-result", "C14.R5", base.rel, splice(base.src, st, "if " + seg + " is None:\n            return"), expect="render_s", canary=True))
    else:
        out.append(("c14-branch-on-result", "render_s no longer discards a create_warning call"))
    # 6b. (seed class) the optional-list idiom loses its parentheses: the fallback depends on the warning
    h = corpus.mod("mdit_to_docutils.html_to_nodes")
    f = h.func("html_to_nodes")
    bo = find_node(f, lambda n: isinstance(n, ast.BinOp) and isinstance(n.op, ast.Add) and isinstance(n.left, ast.IfExp) and isinstance(n.left.orelse, ast.List) and not n.left.orelse.elts)
    if bo is not None:
        ie = bo.left
        out.append(Mutant("c14-fallback-depends-on-result", "C14.R5", h.rel, splice(h.src, bo, f"{unparse(ie.body)} if {unparse(ie.test)} else [] + {ast.get_source_segment(h.src, bo.right)}"), expect="html_to_nodes"))
    else:
        out.append(("c14-fallback-depends-on-result", "html_to_nodes has no `([x] if x else []) + ...`"))
    bo = None
    for f in base.functions.values():
        bo = find_node(f, lambda n: isinstance(n, ast.BinOp) and isinstance(n.op, ast.Add) and isinstance(n.left, ast.IfExp) and isinstance(n.left.orelse, ast.List) and not n.left.orelse.elts and isinstance(n.left.test, ast.Name))
        if bo is not None:
            ie = bo.left
            out.append(Mutant("c14-other-messages-lost-when-suppressed", "C14.R5", base.rel, splice(base.src, bo, f"{unparse(ie.body)} + {unparse(bo.right)} if {unparse(ie.test)} else []"), expect=f.qualname))
            break
    if bo is None:
        out.append(("c14-other-messages-lost-when-suppressed", "no `([x] if x else []) + ...` in base.py"))
    # 6c. the node given as append_to is tested for children after the call
    f = base.func("DocutilsRenderer.render_s")
    st = find_node(f, lambda n: isinstance(n, ast.Expr) and isinstance(n.value, ast.Call) and unparse(n.value.func) == "self.create_warning" and kwarg(n.value, "append_to") is not None)
    if st is not None:
        seg = ast.get_source_segment(base.src, st)
        tgt_ = unparse(kwarg(st.value, "append_to"))
        i = ind_of(base, st)
        out.append(Mutant("c14-append-target-tested-afterwards", "C14.R5", base.rel, splice(base.src, st, f"{seg}\n{i}if not {tgt_}.children:\n{i}    return"), expect="tested after create_warning"))
        out.append(Mutant("c14-append-target-length-tested", "C14.R5", base.rel, splice(base.src, st, f"{seg}\n{i}first = len({tgt_}) == 1"), expect="tested after create_warning"))
    else:
        out.append(("c14-append-target-tested-afterwards", "render_s no longer passes append_to= to create_warning"))
    # 6d. the documented catalogue
    dm = corpus.mod("_docs")
    f = dm.func("MystWarningsDirective.run")
    c = find_node(f, lambda n: isinstance(n, ast.Attribute) and n.attr == "value" and isinstance(n.value, ast.Name) and any(isinstance(a, (ast.ListComp, ast.GeneratorExp)) for a in ancestors(n)))
    if c is not None:
        out.append(Mutant("c14-docs-list-member-names", "C14.R7", dm.rel, splice(dm.src, c, f"{unparse(c.value)}.name.lower()"), expect="documented tag"))
        out.append(Mutant("c14-docs-list-member-names-raw", "C14.R7", dm.rel, splice(dm.src, c, f"{unparse(c.value)}.name"), expect="documented tag"))
    else:
        out.append(("c14-docs-list-member-names", "the directive no longer renders <member>.value in a comprehension"))
    # 6e. reverts of the round-10 repairs: warning nodes counted / read as content
    f = base.func("clean_astext")
    lp = find_node(f, lambda n: isinstance(n, ast.For) and _mentions_sm(n.iter))
    if lp is not None:
        out.append(Mutant("c14-revert-d24bc2f-title-text-keeps-warnings", "C14.R8", base.rel, splice(base.src, lp, "pass"), expect="clean_astext"))
    else:
        out.append(("c14-revert-d24bc2f-title-text-keeps-warnings", "clean_astext has no loop over system_message nodes"))
    f = base.func("DocutilsRenderer.render_dl")
    lp = find_node(f, lambda n: isinstance(n, ast.For) and any(isinstance(c, ast.Call) and isinstance(c.func, ast.Attribute) and c.func.attr == "remove" for c in ast.walk(n)) and isinstance(n.target, ast.Name) and unparse(n.iter) in {unparse(a.targets[0]) for a in f.local_nodes() if isinstance(a, ast.Assign) and _mentions_sm(a.value)})
    if lp is not None:
        out.append(Mutant("c14-revert-6b7d61f-glossary-term-named-with-warning", "C14.R8", base.rel, splice(base.src, lp, "pass"), expect="make_glossary_term"))
    else:
        out.append(("c14-revert-6b7d61f-glossary-term-named-with-warning", "render_dl has no loop removing the collected system_message nodes"))
    f = base.func("DocutilsRenderer._render_finalise")
    c = find_node(f, lambda n: isinstance(n, ast.Call) and unparse(n.func) == "self.create_warning" and kwarg(n, "append_to") is not None and "MD_DEF_DUPE" in unparse(n))
    if c is not None:
        out.append(Mutant("c14-revert-61fb59f-duplicate-def-on-document-root", "C14.R8", base.rel, splice(base.src, kwarg(c, "append_to"), "self.document"), expect="append_to=self.document"))
    else:
        out.append(("c14-revert-61fb59f-duplicate-def-on-document-root", "_render_finalise has no create_warning(MD_DEF_DUPE, append_to=...)"))
    sd = corpus.mod("sphinx_ext.directives")
    f = sd.func("FigureMarkdown.run")
    comp = find_node(f, lambda n: isinstance(n, ast.ListComp) and len(n.generators) == 1 and any(isinstance(_strip_not(i)[0], ast.Call) and _strip_not(i)[1] and _mentions_sm(i) for i in n.generators[0].ifs))
    if comp is not None:
        out.append(Mutant("c14-revert-5a13d0d-figure-md-counts-warning-nodes", "C14.R8", sd.rel, splice(sd.src, comp, f"list({unparse(comp.generators[0].iter)})"), expect="FigureMarkdown.run"))
    else:
        out.append(("c14-revert-5a13d0d-figure-md-counts-warning-nodes", "FigureMarkdown.run has no child list filtered for system_message"))
    mj = corpus.mod("sphinx_ext.mathjax")
    f = mj.func("log_override_warning")
    c = find_node(f, lambda n: isinstance(n, ast.Call) and isinstance(n.func, ast.Attribute) and n.func.attr == "warning" and kwarg(n, "type") is not None)
    if c is not None:
        c2 = copy.deepcopy(c)
        c2.keywords = [k for k in c2.keywords if k.arg not in ("type", "subtype")]
        out.append(Mutant("c14-revert-8b54584-mathjax-notice-untyped", "C14.R2", mj.rel, splice(mj.src, c, ast.unparse(c2)), expect="log_override_warning"))
        st0 = f.node.body[1] if isinstance(f.node.body[0], ast.Expr) and isinstance(f.node.body[0].value, ast.Constant) else f.node.body[0]
        out.append(Mutant("c14-revert-8b54584-mathjax-notice-own-suppression-test", "C14.R4", mj.rel, splice(mj.src, st0, "if logging.is_suppressed_warning('myst', 'mathjax', app.config.suppress_warnings):\n        return\n    " + ast.get_source_segment(mj.src, st0)), expect="log_override_warning"))
    else:
        out.append(("c14-revert-8b54584-mathjax-notice-untyped", "log_override_warning has no typed logger call"))
    # 6e'. reverts of 3b0f79b (the three sites R8 reported on the tree before it)
    def _without_sm(classes: ast.expr) -> str | None:
        """The class union / tuple of an isinstance test with system_message taken out again."""
        items: list[ast.expr] = []

        def flat(x: ast.expr) -> None:
            if isinstance(x, ast.BinOp) and isinstance(x.op, ast.BitOr):
                flat(x.left)
                flat(x.right)
            elif isinstance(x, ast.Tuple):
                for y in x.elts:
                    flat(y)
            else:
                items.append(x)

        flat(classes)
        keep = [unparse(x) for x in items if not _sm_class(x)]
        if not keep or len(keep) == len(items):
            return None
        return "(" + ", ".join(keep) + ("," if len(keep) == 1 else "") + ")" if isinstance(classes, ast.Tuple) else " | ".join(keep)

    f = base.func("DocutilsRenderer.render_link_unknown")
    asg = find_node(f, lambda n: isinstance(n, ast.Assign) and len(n.targets) == 1 and isinstance(n.targets[0], ast.Attribute) and n.targets[0].attr == "rawsource" and isinstance(n.value, ast.Call) and dotted(n.value.func) == "clean_astext" and len(n.value.args) == 1)
    if asg is not None:
        out.append(Mutant("c14-revert-3b0f79b-link-rawsource-keeps-warning-text", "C14.R8", base.rel, splice(base.src, asg.value, f"{unparse(asg.value.args[0])}.astext()"), expect="render_link_unknown"))
    else:
        out.append(("c14-revert-3b0f79b-link-rawsource-keeps-warning-text", "render_link_unknown no longer sets rawsource = clean_astext(<node>)"))
    tr = corpus.mod("mdit_to_docutils.transforms")
    for mid, qn, what in (
        ("c14-revert-3b0f79b-footnote-transition-guard-counts-warnings", "CollectFootnotes.apply", "children of"),
        ("c14-revert-3b0f79b-closing-transition-hidden-by-warning", "CollectFootnotes._ends_with_transition", "children of"),
    ):
        f = tr.func(qn)
        ic = find_node(f, lambda n: isinstance(n, ast.Call) and dotted(n.func) == "isinstance" and len(n.args) == 2 and _mentions_sm(n.args[1]) and any(isinstance(a, (ast.GeneratorExp, ast.ListComp)) for a in ancestors(n)))
        less = _without_sm(ic.args[1]) if ic is not None else None
        if less is not None:
            out.append(Mutant(mid, "C14.R8", tr.rel, splice(tr.src, ic.args[1], less), expect=qn))
        else:
            out.append((mid, f"{qn} has no isinstance(…, <classes incl. system_message>) over a child list"))
    # 6e''. reverts of 51a3635 (document['title'] derived by docutils' DocTitle)
    pd = corpus.mod("parsers.docutils_")
    f = pd.func("Parser.get_transforms")
    el = find_node(f, lambda n: isinstance(n, ast.Name) and n.id == "CleanDocumentTitle" and isinstance(parent(n), (ast.List, ast.Tuple)))
    if el is not None:
        lst = parent(el)
        out.append(Mutant("c14-revert-51a3635-document-title-keeps-warning-text", "C14.R8", pd.rel, splice(pd.src, lst, "[" + ", ".join(unparse(x) for x in lst.elts if x is not el) + "]"), expect="document title without warning text"))
    else:
        out.append(("c14-revert-51a3635-document-title-keeps-warning-text", "get_transforms no longer lists CleanDocumentTitle"))
    if "CleanDocumentTitle" in tr.classes:
        ci = tr.classes["CleanDocumentTitle"]
        pr = next((s for s in ci.node.body if isinstance(s, ast.Assign) and _is_name(s.targets[0], "default_priority") and isinstance(s.value, ast.BinOp)), None)
        ap = ci.methods.get("apply")
        lp = find_node(ap, lambda n: isinstance(n, ast.For) and _mentions_sm(n.iter)) if ap is not None else None
        if pr is not None:
            out.append(Mutant("c14-title-cleaner-runs-before-doctitle", "C14.R8", tr.rel, splice(tr.src, pr.value, f"{unparse(pr.value.left)} - 1"), expect="document title without warning text"))
        if lp is not None:
            out.append(Mutant("c14-title-cleaner-keeps-messages", "C14.R8", tr.rel, splice(tr.src, lp, "pass"), expect="CleanDocumentTitle.apply"))
        if pr is None or lp is None:
            out.append(("c14-title-cleaner-shape", "CleanDocumentTitle has no `default_priority = DocTitle.default_priority + k` / no loop over system_message"))
    else:
        out.append(("c14-title-cleaner-runs-before-doctitle", "transforms.py has no CleanDocumentTitle"))
    # 6g. round-14 repairs: collector-read text elements are cleared of message nodes (revert + partial weakening each)
    def _r9_pair(mid: str, mod, f: FunctionInfo, root: str, expect: str, gate: str) -> None:
        loops = _removal_loops(f, root)
        if not loops:
            out.append((mid, f"{f.qualname} has no loop taking the system_message nodes out of `{root}`"))
            return
        lp = loops[0]
        i_ = ind_of(mod, lp)
        seg_ = ast.get_source_segment(mod.src, lp)
        lines_ = seg_.splitlines()
        body_ = "\n".join([i_ + "    " + lines_[0]] + [("    " + ln if ln.strip() else ln) for ln in lines_[1:]])
        out.append(Mutant(f"c14-revert-{mid}", "C14.R9", mod.rel, splice(mod.src, lp, "pass"), expect=expect))
        out.append(Mutant(f"c14-weaken-{mid}-only-on-one-path", "C14.R9", mod.rel, splice(mod.src, lp, f"if {gate}:\n{body_}"), expect=expect))
        itx = lp.iter
        while isinstance(itx, ast.Call) and isinstance(itx.func, ast.Name) and itx.func.id in ("list", "tuple", "reversed") and itx.args:
            itx = itx.args[0]
        if isinstance(itx, ast.Name):
            dfs = [n for n in f.local_nodes() if isinstance(n, ast.Assign) and len(n.targets) == 1 and _is_name(n.targets[0], itx.id)]
            itx = dfs[0].value if dfs else itx
            while isinstance(itx, ast.Call) and isinstance(itx.func, ast.Name) and itx.func.id in ("list", "tuple", "reversed") and itx.args:
                itx = itx.args[0]
        if isinstance(itx, ast.Call):
            out.append(Mutant(f"c14-weaken-{mid}-direct-children-only", "C14.R9", mod.rel, splice(mod.src, itx, f"[c_ for c_ in {root}.children if isinstance(c_, nodes.system_message)]"), expect=expect))

    _r9_pair("b9e6269-title-keeps-warning-nodes", base, base.func("DocutilsRenderer.render_heading"), "title_node", "title with inline content", "self.sphinx_env is None")
    _r9_pair("b0133e7-author-field-keeps-warning-nodes", base, base.func("DocutilsRenderer.render_front_matter"), "field_list", "field body with inline content", "self.sphinx_env is None")
    mk = corpus.mod("mocking")
    _r9_pair("7443243-inline-text-returns-warning-nodes", mk, mk.func("MockInliner.parse"), "container", "inline_text nodes with inline content", "lineno > 1")
    f = base.func("DocutilsRenderer.run_directive")
    sweep = None
    for lp in (n for n in f.local_nodes() if isinstance(n, ast.For) and isinstance(n.target, ast.Name)):
        if any(any(a is lp for a in ancestors(l2)) for l2 in _removal_loops(f, lp.target.id)):
            sweep = lp
    if sweep is not None:
        outer = next((a for a in ancestors(sweep) if isinstance(a, ast.For)), sweep)
        out.append(Mutant("c14-revert-9c54213-caption-keeps-warning-nodes", "C14.R9", base.rel, splice(base.src, outer, "pass"), expect="captions and titles of directive output"))
        lam = find_node(f, lambda n: isinstance(n, ast.Lambda) and any(a is sweep for a in ancestors(n)) and "caption" in unparse(n) and "title" in unparse(n))
        if lam is not None:
            out.append(Mutant("c14-weaken-9c54213-titles-not-swept", "C14.R9", base.rel, splice(base.src, lam, f"lambda {lam.args.args[0].arg}: isinstance({lam.args.args[0].arg}, nodes.caption)"), expect="captions and titles of directive output"))
        else:
            out.append(("c14-weaken-9c54213-titles-not-swept", "the sweep does not select captions and titles by a lambda predicate"))
    else:
        out.append(("c14-revert-9c54213-caption-keeps-warning-nodes", "run_directive has no caption/title sweep"))
    # 6h. d4491dc: rubric, definition-list term and field name swept by the shared helper (revert per call site + weakenings)
    hname = next((q for q, h in base.functions.items() if _sweeper_summary(h) is not None and h.cls is not None), None)
    if hname is None:
        out.append(("c14-revert-d4491dc", "base.py has no shared helper that sweeps the message nodes out of the elements of a class"))
    else:
        hfi = base.functions[hname]
        short_h = hfi.name
        for qn, kind in (("DocutilsRenderer.render_heading", "rubric"), ("DocutilsRenderer.render_dl", "term"), ("DocutilsRenderer.render_field_list", "field_name")):
            f = base.func(qn)
            st = find_node(f, lambda n: isinstance(n, ast.Expr) and isinstance(n.value, ast.Call) and isinstance(n.value.func, ast.Attribute) and n.value.func.attr == short_h and len(n.value.args) == 2 and (dotted(n.value.args[1]) or "").split(".")[-1] == kind)
            if st is None:
                out.append((f"c14-revert-d4491dc-{kind}-keeps-warning-nodes", f"{qn} does not call {short_h}(<node>, nodes.{kind})"))
                continue
            out.append(Mutant(f"c14-revert-d4491dc-{kind}-keeps-warning-nodes", "C14.R9", base.rel, splice(base.src, st, "pass"), expect=f"{kind} with inline content"))
            gi = parent(st)
            if kind == "term" and isinstance(gi, ast.If) and isinstance(gi.test, ast.UnaryOp) and isinstance(gi.test.op, ast.Not):
                out.append(Mutant("c14-weaken-d4491dc-term-sweep-under-the-wrong-flag", "C14.R9", base.rel, splice(base.src, gi.test, unparse(gi.test.operand)), expect="term with inline content"))
        inner = [l2 for lp in hfi.local_nodes() if isinstance(lp, ast.For) and isinstance(lp.target, ast.Name) for l2 in _removal_loops(hfi, lp.target.id) if any(a is lp for a in ancestors(l2))]
        if inner:
            l2 = inner[0]
            outer = next(a for a in ancestors(l2) if isinstance(a, ast.For))
            it2 = l2.iter
            while isinstance(it2, ast.Call) and isinstance(it2.func, ast.Name) and it2.func.id in ("list", "tuple", "reversed") and it2.args:
                it2 = it2.args[0]
            out.append(Mutant("c14-weaken-d4491dc-helper-sweeps-direct-children-only", "C14.R9", base.rel, splice(base.src, it2, f"[c_ for c_ in {outer.target.id}.children if isinstance(c_, nodes.system_message)]"), expect="rubric with inline content"))
            it1 = outer.iter
            while isinstance(it1, ast.Call) and isinstance(it1.func, ast.Name) and it1.func.id in ("list", "tuple", "reversed") and it1.args:
                it1 = it1.args[0]
            summ = _sweeper_summary(hfi)
            cparam = [p for p in hfi.params if p not in ("self", "cls")][summ[1]] if summ and isinstance(summ[1], int) else None
            if cparam is not None:
                out.append(Mutant("c14-weaken-d4491dc-helper-finds-direct-child-elements-only", "C14.R9", base.rel, splice(base.src, it1, f"[e_ for e_ in [{summ[0]}, *{summ[0]}.children] if isinstance(e_, {cparam})]"), expect="term with inline content"))
        else:
            out.append(("c14-weaken-d4491dc-helper-sweeps-direct-children-only", f"{short_h} has no nested removal loop"))
    # 6i. (seed class) the guard of the leading-transition remover classifies the nodes before the transition without naming message nodes
    if "_DropLeadingTransition.apply" in tr.functions:
        f = tr.func("_DropLeadingTransition.apply")
        ic = find_node(f, lambda n: isinstance(n, ast.Call) and dotted(n.func) == "isinstance" and len(n.args) == 2 and _mentions_sm(n.args[1]) and any(isinstance(a, (ast.GeneratorExp, ast.ListComp)) for a in ancestors(n)))
        less = _without_sm(ic.args[1]) if ic is not None else None
        if less is not None:
            out.append(Mutant("c14-leading-transition-guard-counts-warnings", "C14.R8", tr.rel, splice(tr.src, ic.args[1], less), expect="_DropLeadingTransition.apply"))
            out.append(Mutant("c14-leading-transition-guard-tests-titular", "C14.R8", tr.rel, splice(tr.src, ic.args[1], "nodes.Titular"), expect="_DropLeadingTransition.apply"))
        else:
            out.append(("c14-leading-transition-guard-counts-warnings", "_DropLeadingTransition.apply has no isinstance(…, <classes incl. system_message>) over a child list"))
    # 6f. the class of the new known findings, at other sites
    f = base.func("DocutilsRenderer.render_heading") if "DocutilsRenderer.render_heading" in base.functions else None
    cu = find_node(base.func("DocutilsRenderer.generate_heading_target"), lambda n: isinstance(n, ast.Call) and dotted(n.func) == "clean_astext") if "DocutilsRenderer.generate_heading_target" in base.functions else None
    if cu is not None and cu.args:
        out.append(Mutant("c14-title-text-by-plain-astext", "C14.R8", base.rel, splice(base.src, cu, f"{unparse(cu.args[0])}.astext()"), expect="text of"))
    else:
        hits = [(fi2, n) for fi2 in base.functions.values() for n in (fi2.local_nodes() if not fi2.is_lambda else []) if isinstance(n, ast.Call) and dotted(n.func) == "clean_astext" and n.args]
        if hits:
            fi2, n = hits[0]
            out.append(Mutant("c14-title-text-by-plain-astext", "C14.R8", base.rel, splice(base.src, n, f"{unparse(n.args[0])}.astext()"), expect="text of"))
        else:
            out.append(("c14-title-text-by-plain-astext", "no clean_astext call in base.py"))
    # 7. suppress list read elsewhere
    f = base.func("DocutilsRenderer.render_hr")
    out.append(Mutant("c14-suppress-list-read-in-renderer", "C14.R4", base.rel, splice(base.src, f.node.body[0], "if 'myst.hr' in self.md_config.suppress_warnings:\n            return\n        " + ast.get_source_segment(base.src, f.node.body[0])), expect="render_hr"))
    out.append(Mutant("c14-suppress-list-read-by-name-string", "C14.R4", base.rel, splice(base.src, f.node.body[0], "if 'myst.hr' in (getattr(self.document.settings, 'myst_suppress_warnings', None) or []):\n            return\n        " + ast.get_source_segment(base.src, f.node.body[0])), expect="render_hr"))
    # 8. .name instead of .value in log_warning / in create_warning
    r = corpus.mod("sphinx_ext.myst_refs")
    f = r.func("MystReferenceResolver.log_warning")
    c = find_node(f, lambda n: isinstance(n, ast.Attribute) and unparse(n) == "subtype.value")
    if c is not None:
        out.append(Mutant("c14-enum-name-not-value", "C14.R1", r.rel, splice(r.src, c, "subtype.name"), expect="log_warning"))
    else:
        out.append(("c14-enum-name-not-value", "log_warning no longer reads subtype.value"))
    f = w.func("create_warning")
    c = find_node(f, lambda n: isinstance(n, ast.Attribute) and unparse(n) == "subtype.value")
    if c is not None:
        out.append(Mutant("c14-enum-name-in-create-warning", "C14.R6", w.rel, splice(w.src, c, "subtype.name"), expect="log record subtype"))
    else:
        out.append(("c14-enum-name-in-create-warning", "create_warning no longer reads subtype.value"))
    c = find_node(f, lambda n: isinstance(n, ast.Constant) and n.value == "myst" and not isinstance(parent(n), ast.Expr))
    if c is not None:
        out.append(Mutant("c14-default-type-changed", "C14.R6", w.rel, splice(w.src, c, '"MyST"'), expect="log record type"))
    else:
        out.append(("c14-default-type-changed", "no 'myst' literal in create_warning"))
    c = find_node(f, lambda n: isinstance(n, ast.Call) and isinstance(n.func, ast.Attribute) and n.func.attr == "warning" and kwarg(n, "type") is not None)
    if c is not None:
        out.append(Mutant("c14-log-record-fixed-type", "C14.R6", w.rel, splice(w.src, kwarg(c, "type"), '"myst"'), expect="log record type"))
    else:
        out.append(("c14-log-record-fixed-type", "no logger call with type= in create_warning"))
    # 8b. (seed class) the possibly-None result replaces another node
    n_replace = 0
    for mod_name, qn in (("parsers.docutils_", "Parser.parse"), ("parsers.sphinx_", "MystParser.parse")):
        pm = corpus.mod(mod_name)
        pf = pm.func(qn)
        asg = find_node(pf, lambda n: isinstance(n, ast.Assign) and isinstance(n.value, ast.Call) and (dotted(n.value.func) or "").endswith("reporter.warning") and len(n.targets) == 1 and isinstance(n.targets[0], ast.Name))
        rep_st = None
        if asg is not None:
            var = asg.targets[0].id
            rep_st = find_node(pf, lambda n: isinstance(n, ast.Expr) and isinstance(n.value, ast.Call) and isinstance(n.value.func, ast.Attribute) and n.value.func.attr == "replace" and any(_is_name(a, var) for a in n.value.args))
        short_id = mod_name.split(".")[-1].strip("_")
        if asg is None or rep_st is None or "create_warning" not in pm.imports or "MystWarnings" not in pm.imports:
            continue  # this front end cannot host the edit (shape changed, or the names are not imported there)
        n_replace += 1
        doc = unparse(asg.value.func.value.value) if isinstance(asg.value.func, ast.Attribute) and isinstance(asg.value.func.value, ast.Attribute) else "document"
        new_call = f"create_warning({doc}, 'Raw content disabled.', MystWarnings.NOT_SUPPORTED, node=node)"
        i = ind_of(pm, rep_st)
        seg = ast.get_source_segment(pm.src, rep_st)
        src1 = splice(pm.src, rep_st, f"if {var} is not None:\n{i}    {seg}")  # later position first
        out.append(Mutant(f"c14-result-replaces-node-{short_id}", "C14.R5", pm.rel, splice(pm.src, asg.value, new_call), expect=qn))
        out.append(Mutant(f"c14-result-replaces-node-guarded-{short_id}", "C14.R5", pm.rel, splice(src1, asg.value, new_call), expect=qn))
    # (since the raw filter inserts the message and removes the raw node separately, no front end hosts this edit;
    # the class stays covered by the recorded seed C20 out-c20/1 in the seeded regression)
    # 9. tag format / untagged node
    js = find_node(f, lambda n: isinstance(n, ast.JoinedStr) and len([v for v in n.values if isinstance(v, ast.FormattedValue)]) == 3)
    if js is not None:
        fv = [v for v in js.values if isinstance(v, ast.FormattedValue)]
        out.append(Mutant("c14-tag-format", "C14.R6", w.rel, splice(w.src, js, 'f"{' + unparse(fv[0].value) + "} [{" + unparse(fv[2].value) + '}]"'), expect="node text carries the tag"))
    else:
        out.append(("c14-tag-format", "no f-string with three holes in create_warning"))
    c = find_node(f, lambda n: isinstance(n, ast.Call) and dotted(n.func) == "_create_warning_node" and n.args)
    if c is not None:
        out.append(Mutant("c14-sphinx-node-untagged", "C14.R6", w.rel, splice(w.src, c.args[0], "message"), expect="node text carries the tag"))
    else:
        out.append(("c14-sphinx-node-untagged", "create_warning no longer calls _create_warning_node"))
    # 10. the renderer wrapper stops forwarding wtype
    f = base.func("DocutilsRenderer.create_warning")
    c = find_node(f, lambda n: isinstance(n, ast.Call) and dotted(n.func) == "create_warning" and kwarg(n, "wtype") is not None)
    if c is not None:
        c2 = copy.deepcopy(c)
        c2.keywords = [k for k in c2.keywords if k.arg != "wtype"]
        out.append(Mutant("c14-wrapper-drops-wtype", "C14.R6", base.rel, splice(base.src, c, ast.unparse(c2)), expect="forwards arguments"))
    else:
        out.append(("c14-wrapper-drops-wtype", "the renderer wrapper has no wtype= keyword"))
    # 11. (seed class) a front-matter callback ignores the tag it is handed and emits a fixed, different one
    em = _emissions(corpus)
    mfl = corpus.func("config.main:merge_file_level")
    n_cb = 0
    for h in corpus.all_functions():
        if not any(cfi is mfl for cfi, _ in _callers(corpus).get(h.fq, [])):
            continue
        for fi, call, kind in em.sites:
            sub = em.subtype_arg(call, kind)
            if fi is h and isinstance(sub, ast.Name) and sub.id in h.params and "MystWarnings" in h.module.imports:
                n_cb += 1
                out.append(Mutant(f"c14-callback-fixed-tag-{h.module.name.split('.')[-1].strip('_')}", "C14.R10", h.module.rel, splice(h.module.src, sub, "MystWarnings.NOT_SUPPORTED"), expect="is the emitted subtype", canary=False))
    if not n_cb:
        out.append(("c14-callback-fixed-tag", "no callback of merge_file_level forwards a parameter as subtype in a module that imports MystWarnings"))
    # 11b. the renderer wrapper emits everything under one member
    c = find_node(f, lambda n: isinstance(n, ast.Call) and dotted(n.func) == "create_warning")
    sub = arg_or_kw(c, 2, "subtype") if c is not None else None
    if isinstance(sub, ast.Name):
        out.append(Mutant("c14-wrapper-fixed-tag", "C14.R10", base.rel, splice(base.src, sub, "MystWarnings.RENDER_METHOD"), expect="is the emitted subtype"))
    else:
        out.append(("c14-wrapper-fixed-tag", "the renderer wrapper does not forward a name as subtype"))
    return out
