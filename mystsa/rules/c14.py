"""C14 - warnings: closed typed catalogue; suppression has no side effects."""

from __future__ import annotations

import ast

from ..callgraph import get_callgraph
from ..corpus import (
    Corpus,
    FunctionInfo,
    ancestors,
    arg_or_kw,
    calls_in,
    dotted,
    kwarg,
    parent,
    short,
    splice,
    stmt_key,
    unparse,
    walk_local,
)
from ..flow import get_cfg
from ..mutant import Mutant
from ..report import Report
from .common import find_node, rule

PROP = "C14"
READY = True
TECHNIQUE = "call-site rules over the AST with backwards tracing of the subtype argument through wrappers, callbacks and dataclass fields"

META = {
    "explanation": (
        "Every MyST-typed warning emission in the package (create_warning function and renderer method, log_warning, "
        "Sphinx-logger calls with type=) is enumerated from the syntax tree and its subtype argument is traced backwards - "
        "through the renderer wrapper, the two `warning` lambdas handed to merge_file_level and the ParseWarnings.type field "
        "(default and every constructor call) - to a MystWarnings member that exists in the enum, or to a literal pair in the "
        "closed non-myst set {(ref, footnote)} (R1). Warning-level emissions that bypass the catalogue are a closed, reasoned "
        "list (R2); no catalogue member loses its last typed site (R3); only create_warning consults suppression, it tests "
        "suppression with (type, subtype) in that order before building the node, and _is_suppressed_warning accepts exactly "
        "bare type / type.subtype / type.* (R4); the value returned by create_warning never guards anything but the message "
        "node itself (R5); enum members are rendered with .value and the tag format is [type.subtype] with type defaulting to "
        "'myst' (R6)."
    ),
    "not_decided": "per-document equality of the outputs under different suppress lists (needs the documents); Sphinx's own logger-side suppression filter",
    "trusted_base": ["CPython ast", "the wrapper/callback edges listed in the evidence"],
    "assumptions": ["Sphinx's logging filter removes a suppressed record before it is emitted (sphinx.util.logging.WarningSuppressor)"],
}

# Warning-level emissions that bypass create_warning; closed list, one reason each.
UNTYPED_OK = {
    "myst_parser.warnings_:create_warning": "the typed emission itself (docutils branch: message already carries [type.subtype]; Sphinx branch passes type=/subtype=)",
    "myst_parser.mdit_to_docutils.base:DocutilsRenderer.create_highlighted_code_block": "pygments LexerError text, mirrors docutils' own code directive (not a MyST catalogue warning)",
    "myst_parser.parsers.docutils_:Parser.parse": "'Raw content disabled.' mirrors docutils' raw-role message",
    "myst_parser.parsers.sphinx_:MystParser.parse": "'Raw content disabled.' - the same raw filter as the docutils front end (mirrors docutils' raw-role message)",
    "myst_parser.sphinx_ext.mathjax:log_override_warning": "MathJax override notice: hand-checked against suppress_warnings with the fixed tag myst.mathjax",
    "myst_parser._docs:DirectiveDoc.run": "documentation build helper, not reachable from setup()",
}
NON_MYST_PAIRS = {("ref", "footnote")}
DEAD_MEMBERS = {"DIRECTIVE_BODY": "declared but never emitted on the pinned tree"}


def enum_members(corpus: Corpus) -> dict[str, str]:
    ci = corpus.cls("warnings_:MystWarnings")
    out = {}
    for st in ci.node.body:
        if isinstance(st, ast.Assign) and isinstance(st.targets[0], ast.Name) and isinstance(st.value, ast.Constant):
            out[st.targets[0].id] = st.value.value
    if len(out) < 10:
        raise Exception("MystWarnings enum not understood")
    return out


class Emissions:
    """All typed emission call sites and where their subtype comes from."""

    def __init__(self, corpus: Corpus):
        self.c = corpus
        self.g = get_callgraph(corpus)
        self.members = enum_members(corpus)
        self.cw_func = corpus.func("warnings_:create_warning")
        self.cw_meth = corpus.func("mdit_to_docutils.base:DocutilsRenderer.create_warning")
        self.log_warning = corpus.func("sphinx_ext.myst_refs:MystReferenceResolver.log_warning")
        self.sites: list[tuple[FunctionInfo, ast.Call, str]] = []  # (function, call, kind)
        callers = self.g.callers()
        for kind, target in (("create_warning()", self.cw_func), ("renderer.create_warning()", self.cw_meth), ("log_warning()", self.log_warning)):
            for fi, call in callers.get(target.fq, []):
                self.sites.append((fi, call, kind))
        # logger.warning(..., type=...)
        for fi in corpus.all_functions():
            for call in (calls_in(fi.node, into_lambdas=False) if not fi.is_lambda else calls_in(fi.node.body)):
                if isinstance(call.func, ast.Attribute) and call.func.attr == "warning" and kwarg(call, "type") is not None:
                    if fi.fq == self.cw_func.fq:
                        continue  # the implementation itself: its kwargs are checked by R6
                    self.sites.append((fi, call, "logger.warning(type=)"))

    def subtype_arg(self, call: ast.Call, kind: str) -> ast.expr | None:
        if kind == "create_warning()":
            return arg_or_kw(call, 2, "subtype")
        if kind == "renderer.create_warning()":
            return arg_or_kw(call, 1, "subtype")
        if kind == "log_warning()":
            return arg_or_kw(call, 2, "subtype")
        return kwarg(call, "subtype")

    def wtype_arg(self, call: ast.Call, kind: str) -> ast.expr | None:
        if kind == "logger.warning(type=)":
            return kwarg(call, "type")
        return kwarg(call, "wtype")

    def resolve(self, e: ast.expr | None, fi: FunctionInfo, depth: int = 0) -> list[tuple[str, str]]:
        """[(status, detail)]: status member:<NAME> | literal:<str> | bad:<why>."""
        if e is None:
            return [("bad", "no subtype argument")]
        if depth > 6:
            return [("bad", "wrapper chain too deep")]
        if isinstance(e, ast.Constant) and isinstance(e.value, str):
            return [("literal", e.value)]
        d = dotted(e)
        if isinstance(e, ast.Attribute) and e.attr == "value":
            inner = self.resolve(e.value, fi, depth + 1)
            return [(("value-of-" + s) if s in ("member", "param-enum") else s, x) for s, x in inner]
        if d and d.split(".")[0] == "MystWarnings" and fi.module.resolve("MystWarnings").endswith("warnings_.MystWarnings"):
            name = d.split(".", 1)[1] if "." in d else ""
            if name in self.members:
                return [("member", name)]
            return [("bad", f"MystWarnings.{name} is not a member of the catalogue")]
        if isinstance(e, ast.Name):
            # parameter of a wrapper -> every call site of the wrapper
            owner = fi
            while owner is not None and e.id not in owner.params:
                owner = owner.parent_func
            if owner is not None:
                idx = owner.params.index(e.id)
                out: list[tuple[str, str]] = []
                csites = self.wrapper_callers(owner)
                if not csites:
                    ann = None
                    a = owner.node.args
                    for x in a.posonlyargs + a.args + a.kwonlyargs:
                        if x.arg == e.id:
                            ann = x.annotation
                    if ann is not None and unparse(ann).strip("'\"") == "MystWarnings":
                        return [("param-enum", f"{owner.qualname}({e.id}: MystWarnings)")]
                    return [("bad", f"wrapper {owner.fq} has no resolvable call site")]
                for cfi, ccall, shift in csites:
                    arg = None
                    pos = idx - shift
                    if 0 <= pos < len(ccall.args):
                        arg = ccall.args[pos]
                    for kw in ccall.keywords:
                        if kw.arg == e.id:
                            arg = kw.value
                    if arg is None:
                        # default value of the parameter
                        out.append(("bad", f"{cfi.module.site(ccall)} passes no value for {e.id}"))
                    else:
                        out.extend(self.resolve(arg, cfi, depth + 1))
                return out
            # local variable: single assignment
            defs = [n for n in walk_local(fi.node) if isinstance(n, ast.Assign) and any(isinstance(t, ast.Name) and t.id == e.id for t in n.targets)]
            if len(defs) == 1:
                return self.resolve(defs[0].value, fi, depth + 1)
            return [("bad", f"cannot trace name {e.id}")]
        if isinstance(e, ast.Attribute) and e.attr == "type":
            # ParseWarnings.type: default + every constructor call
            return self.parse_warnings_types()
        if isinstance(e, ast.IfExp):
            return self.resolve(e.body, fi, depth + 1) + self.resolve(e.orelse, fi, depth + 1)
        return [("bad", f"subtype expression not understood: {short(e, 50)}")]

    def wrapper_callers(self, owner: FunctionInfo) -> list[tuple[FunctionInfo, ast.Call, int]]:
        """Call sites of a wrapper (function, method, or lambda handed on as a callback)."""
        g = self.g
        out = []
        shift = 1 if (owner.cls is not None and owner.params and owner.params[0] == "self") else 0
        for fi, call in g.callers().get(owner.fq, []):
            out.append((fi, call, shift))
        return out

    def parse_warnings_types(self) -> list[tuple[str, str]]:
        m = self.c.mod("parsers.directives")
        ci = m.cls("ParseWarnings")
        out: list[tuple[str, str]] = []
        fields = [st for st in ci.node.body if isinstance(st, ast.AnnAssign) and isinstance(st.target, ast.Name)]
        names = [f.target.id for f in fields]
        if "type" not in names:
            return [("bad", "ParseWarnings has no `type` field")]
        idx = names.index("type")
        default = fields[idx].value
        dummy = m.func("parse_directive_text")
        if default is not None:
            out.extend(self.resolve(default, dummy, 1))
        n = 0
        for fi in self.c.all_functions():
            if fi.is_lambda:
                continue
            for call in calls_in(fi.node, into_lambdas=False):
                if fi.module.resolve(dotted(call.func) or "").endswith("parsers.directives.ParseWarnings"):
                    n += 1
                    arg = arg_or_kw(call, idx, "type")
                    if arg is not None:
                        out.extend(self.resolve(arg, fi, 1))
                    elif default is None:
                        out.append(("bad", f"{fi.module.site(call)} ParseWarnings without type"))
        self.parse_warnings_ctor_calls = n
        return out


def _emissions(corpus: Corpus) -> Emissions:
    return corpus.cache("c14-emissions", lambda: Emissions(corpus))


@rule("C14.R1")
def r1_typed_emission(corpus: Corpus, rep: Report, tier: str):
    rep.rule("C14.R1", "every MyST-typed emission names an existing catalogue member (traced through wrappers, lambdas, ParseWarnings.type)")
    em = _emissions(corpus)
    used: dict[str, list[str]] = {}
    for fi, call, kind in em.sites:
        site = fi.module.site(call)
        rep.saw_call(site)
        rep.saw_function(fi.fq)
        k = f"{kind}|{stmt_key(fi, call, 90)}"
        sub = em.subtype_arg(call, kind)
        wt = em.wtype_arg(call, kind)
        res = em.resolve(sub, fi)
        wt_lit = wt.value if isinstance(wt, ast.Constant) else None
        problems = []
        for status, detail in res:
            if status in ("member", "value-of-member", "param-enum", "value-of-param-enum"):
                if status.endswith("member"):
                    used.setdefault(detail, []).append(site)
                if kind == "logger.warning(type=)" and not status.startswith("value-of"):
                    problems.append("logger call must pass the member's .value, not the enum object")
                if wt is not None and kind != "logger.warning(type=)" and wt_lit != "myst" and not (isinstance(wt, ast.Name)):
                    problems.append(f"catalogue member emitted under wtype {unparse(wt)}")
                if kind == "logger.warning(type=)" and wt_lit is not None and wt_lit != "myst":
                    problems.append(f"catalogue member emitted under type={wt_lit!r}")
            elif status == "literal":
                if wt is None or wt_lit is None:
                    if isinstance(wt, ast.Name) and _is_forwarded_param(wt, fi):
                        continue  # wrapper forwards both; judged at its call sites
                    problems.append(f"string subtype {detail!r} without a literal non-myst wtype: the tag myst.{detail} is outside the catalogue" if detail not in em.members.values() else f"string subtype {detail!r} bypasses the MystWarnings enum")
                elif wt_lit == "myst":
                    if detail not in em.members.values():
                        problems.append(f"tag myst.{detail} is outside the catalogue")
                elif (wt_lit, detail) not in NON_MYST_PAIRS:
                    problems.append(f"tag {wt_lit}.{detail} is not in the closed non-MyST set {sorted(NON_MYST_PAIRS)}")
            else:
                problems.append(detail)
        if problems:
            rep.violation("C14.R1", k, site, "; ".join(sorted(set(problems))))
        else:
            rep.ok("C14.R1", k, site, ", ".join(sorted({f"{s}:{d}" for s, d in res}))[:160])
    corpus._cache["c14-used"] = used
    rep.expect_min("C14.R1", 30, "typed emission call sites (31 create_warning + 6 log_warning + 2 logger on the pinned tree)")


def _is_forwarded_param(name: ast.Name, fi: FunctionInfo) -> bool:
    f = fi
    while f is not None:
        if name.id in f.params:
            return True
        f = f.parent_func
    return False


@rule("C14.R2")
def r2_untyped_closed_list(corpus: Corpus, rep: Report, tier: str):
    rep.rule("C14.R2", "warning-level emissions that bypass the catalogue are a closed, reasoned list")
    n = 0
    for fi in corpus.all_functions():
        calls = calls_in(fi.node, into_lambdas=False) if not fi.is_lambda else calls_in(fi.node.body)
        for call in calls:
            f = call.func
            if not (isinstance(f, ast.Attribute) and f.attr in ("warning", "warn")):
                continue
            recv = unparse(f.value)
            if kwarg(call, "type") is not None:
                continue  # typed: R1
            if not any(x in recv.lower() for x in ("reporter", "logger", "logging", "warnings")):
                continue
            n += 1
            owner = fi
            while owner.parent_func is not None and owner.fq not in UNTYPED_OK:
                owner = owner.parent_func
            k = stmt_key(fi, call, 90)
            site = fi.module.site(call)
            if owner.fq in UNTYPED_OK:
                rep.assumed("C14.R2", k, site, UNTYPED_OK[owner.fq])
            else:
                rep.violation("C14.R2", k, site, f"`{short(call, 70)}` logs a warning without a MyST type/subtype: it is not in the catalogue and cannot be suppressed by tag")
    rep.expect_min("C14.R2", 4, "untyped warning-level emissions known on the pinned tree")


@rule("C14.R3")
def r3_no_member_loses_last_site(corpus: Corpus, rep: Report, tier: str):
    rep.rule("C14.R3", "every catalogue member keeps at least one typed emission site")
    em = _emissions(corpus)
    used = corpus._cache.get("c14-used")
    if used is None:
        raise Exception("R1 did not run")
    ci = corpus.cls("warnings_:MystWarnings")
    for name in em.members:
        k = f"MystWarnings.{name}"
        if used.get(name):
            rep.ok("C14.R3", k, used[name][0], f"{len(used[name])} site(s)")
        elif name in DEAD_MEMBERS:
            rep.listed("C14.R3", k, ci.module.site(ci.node), DEAD_MEMBERS[name])
        else:
            rep.violation("C14.R3", k, ci.module.site(ci.node), f"catalogue member {name} (myst.{em.members[name]}) is documented but no call site emits it with its tag any more")


@rule("C14.R4")
def r4_suppression_confined(corpus: Corpus, rep: Report, tier: str):
    rep.rule("C14.R4", "only create_warning consults suppression; test precedes node creation; accepted forms are type / type.sub / type.*")
    g = get_callgraph(corpus)
    w = corpus.mod("warnings_")
    isw = w.func("_is_suppressed_warning")
    cw = w.func("create_warning")
    # (a) who calls _is_suppressed_warning
    for fi, call in g.callers().get(isw.fq, []):
        k = f"{fi.fq}|calls _is_suppressed_warning"
        if fi.fq == cw.fq:
            rep.ok("C14.R4", k, fi.module.site(call))
        else:
            rep.violation("C14.R4", k, fi.module.site(call), "suppression is consulted outside create_warning: behaviour other than the warning itself can depend on suppress_warnings")
    # (b) who reads suppress_warnings
    allowed_readers = {cw.fq: "the suppression test", "myst_parser.sphinx_ext.mathjax:log_override_warning": "MathJax notice"}
    for fi in corpus.all_functions():
        nodes = fi.local_nodes() if not fi.is_lambda else list(ast.walk(fi.node.body))
        for n in nodes:
            if isinstance(n, ast.Attribute) and n.attr in ("suppress_warnings", "myst_suppress_warnings") and isinstance(n.ctx, ast.Load):
                owner = fi
                k = f"{fi.fq}|reads {n.attr}"
                if owner.fq in allowed_readers:
                    rep.ok("C14.R4", k, fi.module.site(n), allowed_readers[owner.fq])
                else:
                    rep.violation("C14.R4", k, fi.module.site(n), f"{fi.qualname} reads {n.attr}: output other than the suppressed warning may depend on the suppress list")
    # (c) inside create_warning: per front-end branch, suppression test first, node built after
    cfg = get_cfg(cw)
    tests = [n for n in cw.local_nodes() if isinstance(n, ast.If) and any(isinstance(c, ast.Call) and dotted(c.func) == "_is_suppressed_warning" for c in ast.walk(n.test))]
    builders = []
    for n in cw.local_nodes():
        if isinstance(n, ast.Call):
            d = dotted(n.func) or ""
            if d == "_create_warning_node" or d.endswith("reporter.warning") or d.endswith(".append"):
                builders.append(n)
    if len(tests) < 2 or len(builders) < 3:
        rep.error("C14.R4", f"create_warning shape not understood ({len(tests)} suppression tests, {len(builders)} node builders)")
    for t in tests:
        k = f"{cw.fq}|{short(t.test, 80)}"
        body_ok = len(t.body) == 1 and isinstance(t.body[0], ast.Return) and (t.body[0].value is None or (isinstance(t.body[0].value, ast.Constant) and t.body[0].value.value is None))
        call = [c for c in ast.walk(t.test) if isinstance(c, ast.Call) and dotted(c.func) == "_is_suppressed_warning"][0]
        roles_ok = len(call.args) >= 2 and _derives_from(call.args[0], cw, {"wtype", "type_str"}) and _derives_from(call.args[1], cw, {"subtype", "subtype_str"})
        if not body_ok:
            rep.violation("C14.R4", k, cw.module.site(t), "a suppressed warning must return None at once; the branch does something else")
        elif not roles_ok:
            rep.violation("C14.R4", k, cw.module.site(t), "_is_suppressed_warning must be given (type, subtype) in that order")
        else:
            rep.ok("C14.R4", k, cw.module.site(t))
    for b in builders:
        st = cfg.stmt_of(b)
        k = f"{cw.fq}|{short(b, 70)}"
        # every path from ENTRY to the builder passes a suppression test's false edge
        fedges = {("F", t) for t in tests}
        dominated = not cfg.paths_avoiding("ENTRY", st, lambda n: n in fedges)
        if dominated:
            rep.ok("C14.R4", k, cw.module.site(b), "dominated by the not-suppressed edge")
        else:
            rep.violation("C14.R4", k, cw.module.site(b), "the message node is built/attached on a path that has not passed the suppression test: a suppressed warning still reaches the doctree")
    # nothing but logging/imports/assignments precedes the test in its branch
    for t in tests:
        blk = None
        p = parent(t)
        for fld in ("body", "orelse"):
            if t in getattr(p, fld, []):
                blk = getattr(p, fld)
        for prev in (blk or [])[: (blk or []).index(t)] if blk else []:
            okp = isinstance(prev, (ast.Import, ast.ImportFrom, ast.Assign, ast.AnnAssign)) or (
                isinstance(prev, ast.Expr) and isinstance(prev.value, ast.Call) and (dotted(prev.value.func) or "").endswith(".warning") and "logger" in (dotted(prev.value.func) or "").lower()
            ) or (isinstance(prev, ast.Expr) and isinstance(prev.value, ast.Constant))
            k = f"{cw.fq}|before-test|{short(prev, 60)}"
            if okp:
                rep.ok("C14.R4", k, cw.module.site(prev))
            else:
                rep.violation("C14.R4", k, cw.module.site(prev), "a statement with effects precedes the suppression test")
    # (d) accepted forms in _is_suppressed_warning
    _check_forms(isw, rep)


def _derives_from(e: ast.expr, fi: FunctionInfo, names: set[str]) -> bool:
    seen = set()
    work = [n.id for n in ast.walk(e) if isinstance(n, ast.Name)]
    while work:
        nm = work.pop()
        if nm in seen:
            continue
        seen.add(nm)
        if nm in names:
            return True
        for n in fi.local_nodes():
            if isinstance(n, ast.Assign) and any(isinstance(t, ast.Name) and t.id == nm for t in n.targets):
                work.extend(x.id for x in ast.walk(n.value) if isinstance(x, ast.Name))
    return False


def _check_forms(isw: FunctionInfo, rep: Report) -> None:
    params = isw.params
    if len(params) < 3:
        rep.error("C14.R4", "_is_suppressed_warning signature changed")
        return
    p_type, p_sub, p_list = params[:3]
    k = f"{isw.fq}|accepted forms"
    site = isw.site()
    rets_true = [n for n in isw.local_nodes() if isinstance(n, ast.Return) and isinstance(n.value, ast.Constant) and n.value.value is True]
    if not rets_true:
        rep.error("C14.R4", "_is_suppressed_warning: no `return True` found (rewritten in an unknown idiom)")
        return
    cfg = get_cfg(isw)
    ok_any = False
    why = ""
    for r in rets_true:
        facts_ = [(unparse(t), pol, t) for t, pol in cfg.guards(r)]
        type_eq = any(pol and isinstance(t, ast.Compare) and isinstance(t.ops[0], ast.Eq) and {unparse(t.left), unparse(t.comparators[0])} >= {p_type} for _, pol, t in facts_)
        sub_in = False
        for _, pol, t in facts_:
            if pol and isinstance(t, ast.Compare) and isinstance(t.ops[0], ast.In) and isinstance(t.comparators[0], (ast.Tuple, ast.List, ast.Set)):
                elts = t.comparators[0].elts
                vals = set()
                for e in elts:
                    if isinstance(e, ast.Constant):
                        vals.add(repr(e.value))
                    else:
                        vals.add(unparse(e))
                if vals == {"None", p_sub, "'*'"}:
                    sub_in = True
                else:
                    why = f"sub-target is compared with {sorted(vals)}, expected {{None, {p_sub}, '*'}}"
        if type_eq and sub_in:
            ok_any = True
    # the split must be on the first dot only
    split_ok = any(
        isinstance(c, ast.Call) and isinstance(c.func, ast.Attribute) and c.func.attr == "split" and len(c.args) == 2 and isinstance(c.args[0], ast.Constant) and c.args[0].value == "." and isinstance(c.args[1], ast.Constant) and c.args[1].value == 1
        for c in isw.local_nodes()
        if isinstance(c, ast.Call)
    )
    # the loop must range over the suppress list parameter
    loop_ok = any(isinstance(n, ast.For) and unparse(n.iter) == p_list for n in isw.local_nodes())
    if ok_any and split_ok and loop_ok:
        rep.ok("C14.R4", k, site, "type == target and subtarget in (None, subtype, '*'); split('.', 1); loop over the suppress list")
    else:
        rep.violation("C14.R4", k, site, "suppression no longer accepts exactly bare type / type.subtype / type.*: " + (why or ("split on first dot missing" if not split_ok else "type equality / loop over suppress list missing")))


@rule("C14.R5")
def r5_return_value_unused(corpus: Corpus, rep: Report, tier: str):
    rep.rule("C14.R5", "the value returned by create_warning is only discarded, returned by a wrapper, or placed in a list; nothing else depends on it")
    em = _emissions(corpus)
    for fi, call, kind in em.sites:
        if kind not in ("create_warning()", "renderer.create_warning()"):
            continue
        k = f"{stmt_key(fi, call, 90)}"
        site = fi.module.site(call)
        p = parent(call)
        if isinstance(p, ast.Expr):
            rep.ok("C14.R5", k, site, "discarded")
            continue
        if isinstance(p, ast.Return) or (fi.is_lambda and fi.node.body is call):
            # wrapper: judged at its call sites (they are emission sites themselves) or callback whose value is discarded
            bad = _callback_value_used(em, fi)
            if bad:
                rep.violation("C14.R5", k, site, bad)
            else:
                rep.ok("C14.R5", k, site, "returned by a wrapper whose callers are judged")
            continue
        if isinstance(p, ast.Assign) and len(p.targets) == 1 and isinstance(p.targets[0], ast.Name):
            var = p.targets[0].id
            bad = None
            for n in fi.local_nodes():
                if isinstance(n, ast.Name) and n.id == var and isinstance(n.ctx, ast.Load) and n.lineno >= p.lineno:
                    how = _use_kind(n)
                    if how is not True:
                        bad = (n, how)
            if bad:
                rep.violation("C14.R5", k, fi.module.site(bad[0]), f"the result of create_warning (None when suppressed) {bad[1]}: suppressing the warning changes more than the warning")
            else:
                rep.ok("C14.R5", k, site, f"only used as an optional list element ({var})")
            continue
        rep.violation("C14.R5", k, site, f"the result of create_warning is used in `{short(p, 60)}`: suppressing the warning changes more than the warning")
    rep.expect_min("C14.R5", 25, "create_warning call sites")


def _use_kind(n: ast.Name):
    """True if the use cannot influence anything but the presence of the node itself."""
    p = parent(n)
    if isinstance(p, ast.List) and isinstance(parent(p), ast.IfExp) and parent(p).body is p:
        return True
    if isinstance(p, ast.IfExp) and p.test is n:
        # [x] if x else []
        if isinstance(p.body, ast.List) and isinstance(p.orelse, ast.List) and not p.orelse.elts and all(isinstance(e, ast.Name) and e.id == n.id for e in p.body.elts):
            return True
        return "selects between two expressions"
    if isinstance(p, ast.List):
        return True
    if isinstance(p, ast.Call) and isinstance(p.func, ast.Attribute) and p.func.attr in ("append",) and n in p.args:
        return True
    if isinstance(p, (ast.If, ast.While)) and p.test is n:
        return "is branched on"
    if isinstance(p, ast.UnaryOp) or isinstance(p, ast.Compare) or isinstance(p, ast.BoolOp):
        return "is tested in a condition"
    if isinstance(p, ast.Return):
        return True
    return f"flows into `{short(p, 50)}`"


def _callback_value_used(em: Emissions, wrapper: FunctionInfo) -> str | None:
    """For lambdas passed as callbacks: every call of the callback must discard the value."""
    if not wrapper.is_lambda:
        return None
    for fi, call in em.g.callers().get(wrapper.fq, []):
        if not isinstance(parent(call), ast.Expr):
            return f"the warning callback's result is used at {fi.module.site(call)}"
    return None


@rule("C14.R6")
def r6_tag_format(corpus: Corpus, rep: Report, tier: str):
    rep.rule("C14.R6", "enum members are rendered with .value; message tag is [type.subtype]; type defaults to 'myst'")
    w = corpus.mod("warnings_")
    cw = w.func("create_warning")
    src = {unparse(n.targets[0]): n.value for n in cw.local_nodes() if isinstance(n, ast.Assign) and isinstance(n.targets[0], ast.Name)}
    site = cw.site()
    # subtype_str
    e = src.get("subtype_str")
    ok = isinstance(e, ast.IfExp) and {unparse(e.body), unparse(e.orelse)} == {"subtype", "subtype.value"} and "isinstance(subtype, str)" in unparse(e.test)
    if ok and unparse(e.body) == "subtype.value":
        ok = unparse(e.test).startswith("not ")
    (rep.ok if ok else rep.violation)("C14.R6", f"{cw.fq}|subtype_str", site, *([] if ok else ["subtype string is not `subtype if isinstance(subtype, str) else subtype.value`: tags would no longer be the catalogue values"]))
    e = src.get("type_str")
    ok = isinstance(e, ast.IfExp) and unparse(e.body) == "wtype" and isinstance(e.orelse, ast.Constant) and e.orelse.value == "myst" and unparse(e.test) == "wtype is not None"
    (rep.ok if ok else rep.violation)("C14.R6", f"{cw.fq}|type_str", site, *([] if ok else ["type no longer defaults to 'myst'"]))
    e = src.get("message_with_type")
    ok = isinstance(e, ast.JoinedStr) and unparse(e).replace('"', "'") == "f'{message} [{type_str}.{subtype_str}]'"
    (rep.ok if ok else rep.violation)("C14.R6", f"{cw.fq}|message_with_type", site, *([] if ok else ["message tag is not ' [type.subtype]'"]))
    # the Sphinx logger call passes type_str/subtype_str
    lw = [c for c in cw.local_nodes() if isinstance(c, ast.Call) and isinstance(c.func, ast.Attribute) and c.func.attr == "warning" and kwarg(c, "type") is not None]
    ok = len(lw) == 1 and unparse(kwarg(lw[0], "type")) == "type_str" and kwarg(lw[0], "subtype") is not None and unparse(kwarg(lw[0], "subtype")) == "subtype_str"
    (rep.ok if ok else rep.violation)("C14.R6", f"{cw.fq}|sphinx logger kwargs", site, *([] if ok else ["Sphinx logger call does not pass type=type_str, subtype=subtype_str"]))
    # docutils branch emits message_with_type; Sphinx node too
    uses = [c for c in cw.local_nodes() if isinstance(c, ast.Call) and (dotted(c.func) or "").endswith(("reporter.warning", "_create_warning_node"))]
    ok = len(uses) >= 2 and all(c.args and unparse(c.args[0]) == "message_with_type" for c in uses)
    (rep.ok if ok else rep.violation)("C14.R6", f"{cw.fq}|node text carries the tag", site, *([] if ok else ["a message node is built from the untagged message"]))
    # the renderer wrapper forwards every argument under the same name
    m = corpus.func("mdit_to_docutils.base:DocutilsRenderer.create_warning")
    calls = [c for c in m.local_nodes() if isinstance(c, ast.Call) and dotted(c.func) == "create_warning"]
    ok = len(calls) == 1 and [unparse(a) for a in calls[0].args] == ["self.document", "message", "subtype"] and all(k.arg == unparse(k.value) for k in calls[0].keywords) and {k.arg for k in calls[0].keywords} >= {"wtype", "line", "append_to"}
    (rep.ok if ok else rep.violation)("C14.R6", f"{m.fq}|forwards arguments unchanged", m.site(), *([] if ok else ["the renderer wrapper does not forward (document, message, subtype, wtype=, line=, append_to=) unchanged"]))


RULES = [r1_typed_emission, r2_untyped_closed_list, r3_no_member_loses_last_site, r4_suppression_confined, r5_return_value_unused, r6_tag_format]


def mutants(corpus: Corpus):
    out = []
    base = corpus.mod("mdit_to_docutils.base")
    w = corpus.mod("warnings_")
    # 1. a literal subtype under the myst type
    f = base.func("DocutilsRenderer.render_s")
    c = find_node(f, lambda n: isinstance(n, ast.Attribute) and unparse(n) == "MystWarnings.STRIKETHROUGH")
    if c is not None:
        out.append(Mutant("c14-literal-subtype", "C14.R1", base.rel, splice(base.src, c, '"strike"'), expect="render_s", canary=True))
        out.append(Mutant("c14-unknown-member", "C14.R1", base.rel, splice(base.src, c, "MystWarnings.STRIKE"), expect="render_s"))
        out.append(Mutant("c14-last-site-lost", "C14.R3", base.rel, splice(base.src, c, "MystWarnings.NOT_SUPPORTED"), expect="STRIKETHROUGH", canary=True))
    # 2. ParseWarnings constructed with a foreign tag
    d = corpus.mod("parsers.directives")
    f = d.func("_parse_directive_options")
    c = find_node(f, lambda n: isinstance(n, ast.Attribute) and unparse(n) == "MystWarnings.DIRECTIVE_OPTION_COMMENTS")
    if c is not None:
        out.append(Mutant("c14-parsewarnings-literal", "C14.R1", d.rel, splice(d.src, c, '"comments"'), expect="_warning.type"))
    # 3. an untyped reporter warning
    f = base.func("DocutilsRenderer.render_link_path")
    c = find_node(f, lambda n: isinstance(n, ast.Call) and unparse(n.func) == "self.create_warning")
    if c is not None:
        out.append(Mutant("c14-untyped-reporter-warning", "C14.R2", base.rel, splice(base.src, c, 'self.reporter.warning("`path:` scheme not yet supported in docutils", line=token_line(token, 0))'), expect="render_link_path", canary=True))
    # 4. node built before the suppression test (docutils branch)
    f = w.func("create_warning")
    tests = [n for n in f.local_nodes() if isinstance(n, ast.If) and "_is_suppressed_warning" in unparse(n.test)]
    if len(tests) == 2:
        t = sorted(tests, key=lambda n: n.lineno)[1]
        out.append(Mutant("c14-docutils-test-dropped", "C14.R4", w.rel, splice(w.src, t.test, "False"), expect="create_warning", canary=True))
        t0 = sorted(tests, key=lambda n: n.lineno)[0]
        call = [c for c in ast.walk(t0.test) if isinstance(c, ast.Call)][0]
        out.append(Mutant("c14-suppress-args-swapped", "C14.R4", w.rel, splice(w.src, call, f"_is_suppressed_warning({unparse(call.args[1])}, {unparse(call.args[0])}, {unparse(call.args[2])})"), expect="order"))
    # 5. accepted forms: drop the '*' form
    f = w.func("_is_suppressed_warning")
    tup = find_node(f, lambda n: isinstance(n, ast.Tuple) and any(isinstance(e, ast.Constant) and e.value == "*" for e in n.elts))
    if tup is not None:
        out.append(Mutant("c14-star-form-dropped", "C14.R4", w.rel, splice(w.src, tup, "(None, subtype)"), expect="accepted forms"))
    sp = find_node(f, lambda n: isinstance(n, ast.Call) and isinstance(n.func, ast.Attribute) and n.func.attr == "split")
    if sp is not None:
        out.append(Mutant("c14-split-all-dots", "C14.R4", w.rel, splice(w.src, sp, f"{unparse(sp.func)}('.')"), expect="accepted forms"))
    # 6. behaviour depending on the return value
    f = base.func("DocutilsRenderer.render_s")
    st = find_node(f, lambda n: isinstance(n, ast.Expr) and isinstance(n.value, ast.Call) and unparse(n.value.func) == "self.create_warning")
    if st is not None:
        seg = ast.get_source_segment(base.src, st)
        out.append(Mutant("c14-branch-on-result", "C14.R5", base.rel, splice(base.src, st, "if " + seg + " is None:\n            return"), expect="render_s", canary=True))
    # 7. suppress list read elsewhere
    f = base.func("DocutilsRenderer.render_hr")
    out.append(Mutant("c14-suppress-list-read-in-renderer", "C14.R4", base.rel, splice(base.src, f.node.body[0], "if 'myst.hr' in self.md_config.suppress_warnings:\n            return\n        " + ast.get_source_segment(base.src, f.node.body[0])), expect="render_hr"))
    # 8. .name instead of .value in log_warning
    r = corpus.mod("sphinx_ext.myst_refs")
    f = r.func("MystReferenceResolver.log_warning")
    c = find_node(f, lambda n: isinstance(n, ast.Attribute) and unparse(n) == "subtype.value")
    if c is not None:
        out.append(Mutant("c14-enum-name-not-value", "C14.R1", r.rel, splice(r.src, c, "subtype.name"), expect="log_warning"))
    # 9. tag format
    f = w.func("create_warning")
    js = find_node(f, lambda n: isinstance(n, ast.JoinedStr) and "type_str" in unparse(n))
    if js is not None:
        out.append(Mutant("c14-tag-format", "C14.R6", w.rel, splice(w.src, js, 'f"{message} [{subtype_str}]"'), expect="message_with_type"))
    return out
