"""C15 - output depends only on document and config: no leakage across parses/workers."""

from __future__ import annotations

import ast
from dataclasses import dataclass

from ..callgraph import MD_RENDER, RENDER_DISPATCH, SPECIAL_EDGES, External, Special, get_callgraph
from ..corpus import (
    AnchorMissing,
    Corpus,
    FunctionInfo,
    Unsupported,
    ancestors,
    dotted,
    parent,
    short,
    splice,
    stmt_key,
    unparse,
    walk_local,
)
from ..flow import get_cfg
from ..mutant import Mutant
from ..report import Report
from .common import find_node, find_stmt, indent_of, rule

PROP = "C15"
READY = False
TECHNIQUE = "whole-package effect analysis: every store/mutator/API call is classified by the provenance of the object it writes (locals, parameters through call sites, helper returns, receiver types); shared roots are judged; path rules on the CFG for installs, restores and refreshes"

META = {
    "explanation": (
        "Whole-package effect analysis. Every store (assignment, augmented assignment, delete to an attribute or subscript, "
        "setattr), every call of a container mutator (incl. next() on an iterator/counter) and every method call on the Sphinx "
        "env/app is enumerated in all functions and classified by the provenance of the written object: local bindings are "
        "followed to their defining expressions (aliases normalised), parameters to the arguments of all their call sites, "
        "returns of package helpers and stores to self.<attr> are followed, receivers are typed with the engine's light typing. "
        "Reachability from the parse entries (both parse methods, the four transforms, figure-md, sub-ref, the reference "
        "resolver) uses the engine's call graph plus its dynamic-dispatch edges recognised wherever they sit in the module "
        "(helper extraction keeps them). R1: a write whose object is rooted in a module global, an imported module/class, a "
        "class object (also one handed out by the docutils registries), a class-level mutable/stateful attribute, the possibly "
        "shared MdParserConfig, the document.settings object (one per Sphinx build) or the Sphinx app/env must be one of: "
        "constant install or constant-key reset executed on every parse around the render call; restore of a value (or of the "
        "absence of a key) saved from the same place; mutation inside a try whose finally restores a saved copy; data under an "
        "env attribute that Sphinx merges per docname (metadata & co.) keyed by env.docname; env.temp_data / ref_context (that Sphinx discards them after every read is re-read from Builder.read_doc); tabled current-"
        "document env API; settings attribute overwritten from the document's own config on every render or parse - unless its name is one "
        "under which the docutils create_myst_config reads a config field back from the settings object (`myst_<field>`: a "
        "reused settings object would turn one document's file-level value into the next document's global config); write to a fresh "
        "copy / object under construction; function outside the reach of every parse entry. The docutils front end must remove "
        "roles._roles[''] as its sibling docutils.parsers.rst.Parser.parse does - unconditionally in the finally of a try around "
        "the render, so that a render halted by an exception does not skip it. R2: save/restore pairs in "
        "finally blocks - the saved name is read from the restored place before the try (or under the same conditions as the "
        "restore), is a copy when the place is mutated in place, shared state is not changed before the try is entered, undo "
        "operations match their forward operation. R3: lru_cache functions are pure functions of immutable scalars and return an immutable value - not a list/dict, not an "
        "instance of a stateful package or library class (a cached parser/tokenizer/template environment is one object shared "
        "by every parse). R4: the "
        "parser each parse method renders with originates from a MarkdownIt(...) constructed during that call (followed through "
        "helpers, parameters, returns); no parser/renderer instance at module or class level. R5: every renderer attribute "
        "written during a render is stored unconditionally by setup_render, which render() calls first. R6: document-scoped "
        "state is listed. R7: no uuid/random/secrets/time/os.urandom/id() value reaches a node, id or message. R8: a config "
        "field mutated in place is re-created for every MdParserConfig instance by an unconditional normalising validator "
        "(copy() is shallow); every return of MdParserConfig.copy is classified (dataclasses.replace / constructor = re-validating, "
        "copy.copy = shallow: no field is owned, returning self = R1 violation); a copy.copy(<config object>) anywhere in parse "
        "reach counts the same way. R9: env.myst_config is assigned on every normal path of a handler connected to builder-inited (the "
        "environment is pickled between builds). R10: a subscript slot that is extended in place somewhere (node['classes'], "
        "node['names'] ...) is never assigned a mutable object owned by the config, a module global or a class. R11: the system "
        "messages returned by docutils' role/directive registry lookup (emitted only the first time a name is looked up in a "
        "process) are used only under the lookup-failed test. R12: no warning goes through an API that de-duplicates against "
        "earlier emissions of the process (Sphinx logging once=True, warnings.warn), one tabled build-level notice excepted. "
        "R13: a set is never turned into text (f-string, str/repr/format/%, join) unsorted - its order depends on the hash seed "
        "of the process. R14: the variable context handed to a template holds deep copies of configured values (a shallow "
        "copy still exposes the shared dict/list objects to mutating template expressions); this holds item by item too (self.ctx[k] = copy(v) copies one level only and is reported); a by-reference fallback in the "
        "handler of a failed deepcopy is accepted as best effort. R5 has no tabled exception any more (the lazily filled "
        "_inventories cache must be reset per render too). "
        "The dunder protocol methods of MdParserConfig (__getstate__, __repr__ ...) count as entries: they run implicitly on the "
        "live shared object (Sphinx pickles the env after every read) and must not write it. "
        "R14 also reports the Sphinx env object itself in a template context (known finding). R15: a container found "
        "below app.config (the user's conf.py objects) is written only after it was replaced by a new object on every path. "
        "Freshness of a stored value is decided flow-sensitively for re-bound names (value = set(value)). "
        "R1 also judges method calls on a module-/class-level instance of a package class whose method keeps state (writes "
        "self, mutates a member, calls into an external base class), and reads the library source of an external function "
        "that is handed the Sphinx env to see that it only uses tabled env methods."
    ),
    "not_decided": (
        "equality of outputs under all histories/schedules as values; state kept inside third-party directives/roles, docutils "
        "and Sphinx domains (one foreign write is covered: the default role set by docutils' default-role directive), Jinja "
        "templates handed `env`; aliasing of shared objects through anything but constant-key subscript slots (R10 is field-"
        "based, not a full heap analysis); immutability of config values is taken from field annotations only; the run-time type of "
        "values loaded from YAML front matter: a `!!set` arrives as a Python set and is formatted by str()/repr()/json/Jinja in "
        "hash order (known, not repaired [hunt2 out-c15/1]) - R13 only sees sets whose construction is visible in the source"
    ),
    "trusted_base": [
        "CPython ast",
        "engine call graph incl. frozen special edges (their patterns are re-applied module-wide by this module)",
        "tables in this module: ENV_API / ENV_PURE / ENV_ARG_API / ENV_MERGED / SETTINGS_API / REGISTRY_CALLS / FRESH_CALLS / STATEFUL_CTORS / IMMUTABLE_RESULTS / RESET_EXCEPTIONS / ONCE_EXCEPTIONS / EFFECT_PREFIXES",
        "sibling sources docutils/parsers/rst/__init__.py and directives/misc.py (default-role oracle); library functions that receive the env are read from site-packages; sphinx/builders/__init__.py + sphinx/environment/__init__.py (temp_data lifetime)",
    ],
    "assumptions": [
        "docutils creates one document/reporter per parse; under Sphinx the settings object is the publisher's and shared by all documents (judged as shared), settings.record_dependencies is replaced per document",
        "Sphinx merges env.metadata & co. / domain data per docname from parallel read workers and resets env.metadata[docname] when a document is re-read; ad-hoc env attributes are not merged",
        "template expressions (Jinja, sandboxed or not) may call mutating methods of the values in their context",
        "the build environment (incl. env.myst_config) is pickled and re-loaded by the next build",
        "markdown-it creates a fresh env dict per MarkdownIt.render call; docutils Element constructors copy list-valued keyword arguments",
        "docutils' roles.role()/directives.directive() cache successful lookups process-wide and emit their language-fallback messages only on the first lookup; failed lookups are not cached",
        "Sphinx's OnceFilter (once=True) keys on the message text and lives as long as the application",
        "dataclasses.replace re-runs the field validators through __post_init__ (re-verified on every run); the docutils front end may be driven with one settings object for several documents (Publisher reuse, publish_*(settings=...))",
    ],
}

PARSE_ENTRIES = [
    "parsers.docutils_:Parser.parse",
    "parsers.sphinx_:MystParser.parse",
    "mdit_to_docutils.transforms:UnreferencedFootnotesDetector.apply",
    "mdit_to_docutils.transforms:SortFootnotes.apply",
    "mdit_to_docutils.transforms:CollectFootnotes.apply",
    "mdit_to_docutils.transforms:ResolveAnchorIds.apply",
    "sphinx_ext.directives:FigureMarkdown.run",
    "sphinx_ext.directives:SubstitutionReferenceRole.run",
    "sphinx_ext.myst_refs:MystReferenceResolver.run",  # post-transform: resolves references, emits warnings
]
RENDER_ENTRIES = PARSE_ENTRIES[:2]
BUILD_ENTRIES = [
    "myst_parser:setup",
    "sphinx_ext.main:setup_sphinx",
    "sphinx_ext.main:create_myst_config",
    "sphinx_ext.mathjax:override_mathjax",
]
CONFIG_CLS = "myst_parser.config.main:MdParserConfig"

MUTATORS = {
    "add", "update", "append", "extend", "insert", "pop", "remove", "discard", "clear", "setdefault", "sort", "popitem",
    "difference_update", "intersection_update", "symmetric_difference_update", "__setitem__", "__delitem__", "appendleft",
    "popleft", "reverse", "send", "__next__", "rotate", "subtract",
}
# constructors of objects with mutable state (containers, iterators, counters)
STATEFUL_CTORS = {"dict", "list", "set", "defaultdict", "OrderedDict", "deque", "Counter", "count", "cycle", "iter", "bytearray", "WeakValueDictionary", "WeakKeyDictionary", "ChainMap"}
ELEMENT_READS = {"get", "setdefault", "pop", "values", "items", "keys", "__getitem__"}
# calls whose result is a new object that nothing else refers to
FRESH_CALLS = {
    "dict", "set", "list", "tuple", "frozenset", "sorted", "reversed", "str", "int", "float", "bool", "bytes", "repr", "len",
    "copy", "deepcopy", "copy.copy", "copy.deepcopy", "enumerate", "zip", "map", "filter", "range", "iter", "next", "sum", "max", "min",
    "dataclasses.replace", "dc.replace",
}
# docutils registries hand out the registered (shared) class / role function
REGISTRY_CALLS = {
    "docutils.parsers.rst.directives.directive": "directive class from the docutils/Sphinx registry (shared by every parse in the process)",
    "docutils.parsers.rst.roles.role": "role function from the docutils registry",
}
ENV_ATTRS = {"env", "app"}
ENV_TYPES = {"sphinx.application.Sphinx", "sphinx.environment.BuildEnvironment"}

# method calls on the Sphinx env / app / a domain that record something: current-document API, one reason each
ENV_API = {
    "note_included": "BuildEnvironment.note_included records under env.docname (merged per document)",
    "note_dependency": "BuildEnvironment.note_dependency records under env.docname",
    "note_reread": "BuildEnvironment.note_reread records env.docname",
    "emit": "Sphinx event emission for the document being read (include-read)",
    "note_equation": "MathDomain.note_equation(docname, ...): first argument must be env.docname",
    "new_serialno": "BuildEnvironment.new_serialno: counter kept in env.temp_data, i.e. per document",
}
# read-only env API
ENV_PURE = {"relfn2path", "path2doc", "doc2path", "get_domain", "get_equation_number_for", "get_relative_uri", "is_suppressed_warning",
            "has_equations", "resolve_xref", "resolve_any_xref", "get_full_qualified_name", "get_target_uri", "role_for_objtype"}
# external functions that receive the env as an argument
ENV_ARG_API = {
    "sphinx.domains.std.make_glossary_term": "registers the term in the std domain under env.docname (what the glossary directive does)",
    "sphinx.ext.intersphinx.InventoryAdapter": "read adapter over env.intersphinx_* (idempotent lazy init)",
    "sphinx.ext.intersphinx._shared.InventoryAdapter": "read adapter over env.intersphinx_* (idempotent lazy init)",
    "os.path.relpath": "pure",
    "isinstance": "pure",
    "hasattr": "pure",
    "getattr": "pure read",
    "type": "pure",
    "id": "pure",
    "bool": "pure",
    "repr": "pure",
    "str": "pure",
}

# methods of str/bytes/dict/list/set/tuple that do not mutate: a call of one of these on something read out of the env is a value computation
_VALUE_METHODS = {n for t in (str, bytes, dict, list, set, frozenset, tuple) for n in dir(t) if not n.startswith("__")} - MUTATORS

# env attributes that Sphinx merges back from parallel read workers per docname (BuildEnvironment.merge_info_from)
ENV_MERGED = {"metadata", "titles", "longtitles", "tocs", "toc_num_entries", "dependencies", "included", "reread_always", "all_docs", "glob_toctrees", "numbered_toctrees", "toctree_includes", "files_to_rebuild"}
# what may be written below document.settings (under Sphinx ONE settings object serves every document of the build)
SETTINGS_API = {"record_dependencies": "dependency list that docutils' own include directive fills in the same way; Sphinx installs a new one for every document it reads"}

SHARED = {"SETTINGS", "GLOBAL", "IMPORTED", "CLASSOBJ", "CLASSATTR", "REGISTRY", "CONFIG", "ENV"}


@dataclass(frozen=True)
class Root:
    kind: str  # SHARED kinds, or FRESH | SELF | SELFATTR | PARAM | CALL | UNKNOWN
    why: str = ""
    dockey: bool = False  # reached through a key that is env.docname
    obj: bool = False  # ENV only: the env/app object itself (not something read out of it)

    def keyed(self) -> "Root":
        return Root(self.kind, self.why, True, False)

    def derived(self) -> "Root":
        return Root(self.kind, self.why, self.dockey, False) if self.obj else self


@dataclass
class Site:
    fi: FunctionInfo
    node: ast.AST  # the statement or call
    container: ast.expr  # the object that is written
    written: str  # normalised text of the written place (container.attr / container[k] / container for mutators)
    how: str  # store | aug | del | mutator:<m> | setattr | envcall:<m> | envarg:<callee> | global
    value: ast.expr | None = None

    @property
    def site(self) -> str:
        return self.fi.module.site(self.node)

    @property
    def key(self) -> str:
        return stmt_key(self.fi, self.node, 110)


# ---------------------------------------------------------------------------
# E7 (local to this module): provenance of written objects


def _alias_target(fi: FunctionInfo, name: str) -> str | None:
    """``name`` is a local bound exactly once, to a plain name/attribute chain (``cfg = state._renderer.md_config``)."""
    cache = fi.__dict__.setdefault("_c15_alias", {})
    if name in cache:
        return cache[name]
    res = None
    if name not in fi.params and not fi.is_lambda:
        defs = []
        for n in walk_local(fi.node, into_lambdas=False):
            if isinstance(n, (ast.Assign, ast.AnnAssign, ast.AugAssign, ast.For, ast.comprehension, ast.withitem, ast.NamedExpr)):
                tg = n.targets if isinstance(n, ast.Assign) else [getattr(n, "target", None) or getattr(n, "optional_vars", None)]
                for t in tg:
                    if t is not None and any(isinstance(x, ast.Name) and x.id == name for x in ast.walk(t) if isinstance(x, ast.Name) and isinstance(x.ctx, ast.Store)):
                        defs.append(n)
        if len(defs) == 1 and isinstance(defs[0], (ast.Assign, ast.AnnAssign)) and defs[0].value is not None:
            v = defs[0].value
            if isinstance(v, ast.Call) and dotted(v.func) == "cast" and len(v.args) == 2:
                v = v.args[1]
            d = dotted(v)
            tgt_ok = isinstance(defs[0], ast.AnnAssign) or (len(defs[0].targets) == 1 and isinstance(defs[0].targets[0], ast.Name))
            if d and tgt_ok and isinstance(v, ast.Attribute) and d.split(".")[0] != name:
                res = d
    cache[name] = res
    return res


def _ntext(e: ast.AST, fi: FunctionInfo, depth: int = 0) -> str:
    """Normalised text of a place: a local alias at the root of a longer chain is replaced by what it stands for."""
    text = unparse(e)
    root = e
    steps = 0
    while isinstance(root, (ast.Attribute, ast.Subscript)):
        root = root.value
        steps += 1
    if steps and isinstance(root, ast.Name) and depth < 3:
        tgt = _alias_target(fi, root.id)
        if tgt and text.startswith(root.id):
            rest = text[len(root.id):]
            head = tgt
            # expand aliases of aliases
            h0 = head.split(".")[0]
            t2 = _alias_target(fi, h0) if depth < 2 else None
            if t2:
                head = t2 + head[len(h0):]
            return head + rest
    return text


def _flatten(t: ast.expr):
    if isinstance(t, (ast.Tuple, ast.List)):
        for i, e in enumerate(t.elts):
            yield from ((x, (i,) + p) for x, p in _flatten(e))
    elif isinstance(t, ast.Starred):
        yield from _flatten(t.value)
    else:
        yield t, ()


class Effects:
    def __init__(self, corpus: Corpus):
        self.c = corpus
        self.g = get_callgraph(corpus)
        self._bind: dict[str, dict[str, list]] = {}
        self._memo: dict[tuple, frozenset] = {}
        self._param: dict[tuple, frozenset] = {}
        self.config_cls = corpus.cls(CONFIG_CLS.replace("myst_parser.", "", 1))
        # the engine freezes its special edges per *caller*; a helper extracted from such a caller (the dispatch
        # body, the directive run, parser.render) must keep the edge: the patterns are applied module-wide here
        self._special_patterns: dict[str, list[tuple[str, str]]] = {}
        for caller_fq, specs in SPECIAL_EDGES.items():
            self._special_patterns.setdefault(caller_fq.split(":")[0], []).extend(specs)
        self._extra: dict[str, list[FunctionInfo]] = {}
        self._sites: list[Site] | None = None
        self._inst_why: dict[int, tuple] = {}
        self._cuts = 0  # number of times a recursion was cut by a cycle/depth guard (results computed meanwhile are partial)
        # protocol methods of the shared configuration class run implicitly while documents are read (Sphinx pickles the env
        # that holds the config after every read chunk / phase, logs its repr, compares it): they are entries too
        self.implicit_entries = [m for n_, m in self.config_cls.methods.items() if n_.startswith("__") and n_.endswith("__") and n_ not in ("__init__", "__post_init__", "__new__")]
        self.parse_reach = self.reachable([corpus.func(e) for e in PARSE_ENTRIES] + self.implicit_entries)
        self.build_reach = self.reachable([corpus.func(e) for e in BUILD_ENTRIES])

    # -- reachability with helper-robust special edges ------------------------------------------
    def is_parser_value(self, e: ast.expr, fi: FunctionInfo, depth: int = 0) -> bool:
        """``e`` holds the MarkdownIt built by create_md_parser (local bound from the call, or a parameter fed with one)."""
        if depth > 3:
            return False
        if isinstance(e, ast.Call):
            return self.callee_name(e, fi).endswith("create_md_parser")
        if isinstance(e, ast.Name):
            f, binds = self.lookup(e.id, fi)
            for kind, v, path in binds or []:
                if kind == "assign" and v is not None and not path and self.is_parser_value(v, f, depth + 1):
                    return True
                if kind == "param":
                    idx = f.params.index(e.id)
                    shift = 1 if (f.cls is not None and f.params and f.params[0] in ("self", "cls")) else 0
                    for cfi, call in self.g.callers().get(f.fq, []):
                        pos = idx - shift
                        arg = call.args[pos] if 0 <= pos < len(call.args) else None
                        for kw in call.keywords:
                            if kw.arg == e.id:
                                arg = kw.value
                        if arg is not None and self.is_parser_value(arg, cfi, depth + 1):
                            return True
        return False

    def special_kind(self, call: ast.Call, fi: FunctionInfo) -> str | None:
        """Kind of dynamic call the engine knows as a frozen special edge, recognised wherever it sits in the module."""
        text = ast.unparse(call.func)
        for prefix, kind in self._special_patterns.get(fi.module.name, []):
            if text == prefix or (text.startswith(prefix) and prefix.endswith(("[", "("))):
                return kind
        f = call.func
        if isinstance(f, ast.Name):
            # handler = self.rules[...] / self.rules.get(...); handler(child)
            _, binds = self.lookup(f.id, fi)
            for kind_, v, path in binds or []:
                if kind_ == "assign" and v is not None and not path:
                    if isinstance(v, ast.Call) and isinstance(v.func, ast.Attribute) and v.func.attr == "get":
                        v = ast.Subscript(value=v.func.value, slice=ast.Constant(""), ctx=ast.Load())
                    if isinstance(v, ast.Subscript):
                        f = v
                        break
        if isinstance(f, ast.Subscript) and isinstance(f.value, ast.Attribute) and f.value.attr == "rules":
            try:
                t = self.g.expr_type(f.value.value, fi)
            except Exception:
                t = None
            if t and any(c.name == "DocutilsRenderer" for c in self.c.mro(t[1])):
                return RENDER_DISPATCH
        if isinstance(f, ast.Attribute) and f.attr == "render" and self.is_parser_value(f.value, fi):
            return MD_RENDER
        return None

    def extra_targets(self, fi: FunctionInfo) -> list[FunctionInfo]:
        ex = self._extra.get(fi.fq)
        if ex is not None:
            return ex
        ex = []
        self._extra[fi.fq] = ex
        for call, targets in self.g.callees(fi):
            if any(isinstance(t, Special) for t in targets):
                continue
            kind = self.special_kind(call, fi)
            if kind:
                ex.extend(self.g.special_targets(kind, fi))
        return ex

    def reachable(self, entries: list[FunctionInfo]) -> dict[str, bool]:
        seen: dict[str, bool] = {}
        work = list(entries)
        while work:
            fi = work.pop()
            if fi.fq in seen:
                continue
            seen[fi.fq] = True
            for inner in fi.module.functions.values():
                if inner.parent_func == fi and inner.fq not in seen:
                    work.append(inner)
            for call, targets in self.g.callees(fi):
                for t in self.g.flat_targets(targets):
                    if t.fq not in seen:
                        work.append(t)
            for t in self.extra_targets(fi):
                if t.fq not in seen:
                    work.append(t)
        return seen

    # -- local bindings ---------------------------------------------------------
    def bindings(self, fi: FunctionInfo) -> dict[str, list]:
        b = self._bind.get(fi.fq)
        if b is not None:
            return b
        b = {}
        self._bind[fi.fq] = b
        for p in fi.params:
            b.setdefault(p, []).append(("param", None, ()))
        if fi.is_lambda:
            return b
        for n in walk_local(fi.node, into_lambdas=False):
            if isinstance(n, ast.Assign):
                for t in n.targets:
                    for x, path in _flatten(t):
                        if isinstance(x, ast.Name):
                            b.setdefault(x.id, []).append(("assign", n.value, path))
            elif isinstance(n, ast.AnnAssign) and isinstance(n.target, ast.Name):
                b.setdefault(n.target.id, []).append(("assign", n.value, ()) if n.value is not None else ("decl", None, ()))
            elif isinstance(n, ast.AugAssign) and isinstance(n.target, ast.Name):
                b.setdefault(n.target.id, []).append(("assign", n.value, ()))
            elif isinstance(n, ast.NamedExpr) and isinstance(n.target, ast.Name):
                b.setdefault(n.target.id, []).append(("assign", n.value, ()))
            elif isinstance(n, (ast.For, ast.comprehension)):
                for x, path in _flatten(n.target):
                    if isinstance(x, ast.Name):
                        b.setdefault(x.id, []).append(("elem", n.iter, path))
            elif isinstance(n, ast.withitem) and n.optional_vars is not None:
                for x, path in _flatten(n.optional_vars):
                    if isinstance(x, ast.Name):
                        b.setdefault(x.id, []).append(("assign", n.context_expr, path))
            elif isinstance(n, ast.Import):
                for a in n.names:
                    b.setdefault(a.asname or a.name.split(".")[0], []).append(("import", a.name if a.asname else a.name.split(".")[0], ()))
            elif isinstance(n, ast.ImportFrom):
                for a in n.names:
                    b.setdefault(a.asname or a.name, []).append(("import", f"{n.module}.{a.name}", ()))
            elif isinstance(n, ast.ExceptHandler) and n.name:
                b.setdefault(n.name, []).append(("fresh", None, ()))
        for q, inner in fi.module.functions.items():
            if inner.parent_func == fi and not inner.is_lambda:
                b.setdefault(inner.name, []).append(("fresh", None, ()))
        for n in ast.iter_child_nodes(fi.node):
            pass
        return b

    def self_owner(self, fi: FunctionInfo) -> FunctionInfo | None:
        f = fi
        while f is not None:
            if f.cls is not None and f.params and f.params[0] == "self" and not f.is_lambda:
                return f
            f = f.parent_func
        return None

    # -- classification -----------------------------------------------------------
    def classify(self, e: ast.expr, fi: FunctionInfo, depth: int = 0, seen: frozenset = frozenset()) -> frozenset:
        key = (fi.fq, id(e))
        if key in self._memo:
            return self._memo[key]
        if depth > 14:
            self._cuts += 1
            return frozenset({Root("UNKNOWN", "too deep")})
        cuts0 = self._cuts
        r = frozenset(self._classify(e, fi, depth, seen))
        if any(x.kind == "ENV" and not x.obj for x in r) and self._is_config_type(e, fi) == "CONFIG":
            # e.g. document.settings.env.myst_config: the build-wide config object
            r = frozenset(Root("CONFIG", f"{short(e, 50)}: the global MdParserConfig kept on the Sphinx env") if (x.kind == "ENV" and not x.obj) else x for x in r)
        if not seen or self._cuts == cuts0:
            self._memo[key] = r  # nothing below was cut short by the cycle guard: the result does not depend on `seen`
        return r

    def _is_config_type(self, e: ast.expr, fi: FunctionInfo) -> str | None:
        try:
            t = self.g.expr_type(e, fi)
        except Exception:
            return None
        if t and t[1].fq == self.config_cls.fq and t[0] == "is":
            return "CONFIG"
        if t and t[0] == "type":
            return "CLASSOBJ"
        return None

    def is_docname(self, e: ast.expr | None, fi: FunctionInfo) -> bool:
        if isinstance(e, ast.Attribute) and e.attr == "docname":
            return any(r.kind == "ENV" for r in self.classify(e.value, fi))
        if isinstance(e, ast.Name):
            f, binds = self.lookup(e.id, fi)
            vals = [v for k, v, p in (binds or []) if k == "assign" and v is not None and not p]
            return bool(vals) and all(self.is_docname(v, f) for v in vals)
        return False

    def lookup(self, name: str, fi: FunctionInfo):
        f = fi
        while f is not None:
            b = self.bindings(f)
            if name in b:
                return f, b[name]
            f = f.parent_func
        return None, None

    def _classify(self, e, fi, depth, seen) -> set:
        rec = lambda x, f=fi: self.classify(x, f, depth + 1, seen)  # noqa: E731
        mod = fi.module
        if isinstance(e, ast.Name):
            if e.id == "self":
                so = self.self_owner(fi)
                if so is not None:
                    if so.cls.fq == self.config_cls.fq:
                        if so.name in ("__init__", "__post_init__"):
                            return {Root("FRESH", "config object under construction")}
                        return {Root("CONFIG", "self of MdParserConfig")}
                    return {Root("SELF", so.cls.fq)}
            f, binds = self.lookup(e.id, fi)
            if binds is not None:
                out: set = set()
                for kind, val, path in binds:
                    if kind == "param":
                        out |= self.param_roots(f, e.id, depth, seen)
                    elif kind in ("assign", "elem"):
                        if val is None:
                            continue
                        v = val
                        p = list(path)
                        while p and kind == "assign" and isinstance(v, (ast.Tuple, ast.List)) and p[0] < len(v.elts):
                            v = v.elts[p.pop(0)]
                        out |= self.classify(v, f, depth + 1, seen)
                    elif kind == "import":
                        ci = self.c.find_class(val)
                        out.add(Root("CLASSOBJ" if ci or val.rsplit(".", 1)[-1][:1].isupper() else "IMPORTED", f"imported {val}"))
                    elif kind == "fresh":
                        out.add(Root("FRESH", "local def / exception"))
                return out or (set() if seen else {Root("UNKNOWN", f"declared-only local {e.id}")})
            if e.id in mod.classes:
                return {Root("CLASSOBJ", f"class {mod.name}.{e.id}")}
            if e.id in mod.functions or e.id in mod.const_nodes:
                return {Root("GLOBAL", f"module global {mod.name}.{e.id}")}
            if e.id in mod.imports:
                full = mod.imports[e.id]
                isclass = self.c.find_class(full) is not None or full.rsplit(".", 1)[-1][:1].isupper()
                return {Root("CLASSOBJ" if isclass else "IMPORTED", f"imported {full}")}
            return {Root("UNKNOWN", f"name {e.id}")}
        if isinstance(e, ast.Attribute):
            if e.attr == "__class__":
                return {Root("CLASSOBJ", "__class__")}
            base = rec(e.value)
            # properties of package classes
            try:
                t = self.g.expr_type(e.value, fi)
            except Exception:
                t = None
            if t and t[0] == "is":
                m = self.c.lookup_method(t[1], e.attr)
                if m is not None and "property" in m.decorators():
                    out = set()
                    for impl in self.c.method_impls(t[1], e.attr):
                        for n in walk_local(impl.node):
                            if isinstance(n, ast.Return) and n.value is not None and not (isinstance(n.value, ast.Constant)):
                                out |= self.classify(n.value, impl, depth + 1, seen)
                    return out or {Root("UNKNOWN", "property")}
            if e.attr in ENV_ATTRS:
                return {Root("ENV", f".{e.attr}", False, True)}
            if e.attr == "settings" and not any(r.kind in ("GLOBAL", "IMPORTED", "CLASSOBJ") for r in base):
                return {Root("SETTINGS", "document.settings: under Sphinx one settings object (the publisher's) is shared by every document read in the process")}
            shared = {r.derived() for r in base if r.kind in SHARED}
            if shared:
                return shared
            selfs0 = [r for r in base if r.kind == "SELF"]
            if selfs0 and isinstance(e.value, ast.Name):
                st_roots = self.self_attr_store_roots(selfs0[0].why, e.attr, depth, seen)
                if st_roots is not None and st_roots and all(r.kind == "FRESH" for r in st_roots):
                    return {Root("FRESH", f"self.{e.attr} only ever holds objects created by this instance")}
                if st_roots:
                    sh = {r.derived() for r in st_roots if r.kind in SHARED}
                    if sh:
                        return sh
            tk = self._is_config_type(e, fi)
            if tk == "CONFIG":
                return {Root("CONFIG", f"{unparse(e)} is typed MdParserConfig (may be the global config object)")}
            if tk == "CLASSOBJ":
                return {Root("CLASSOBJ", f"{unparse(e)} is a class object")}
            selfs = [r for r in base if r.kind == "SELF"]
            if selfs:
                ca = self.class_level_mutable(selfs[0].why, e.attr)
                if ca:
                    return {Root("CLASSATTR", ca)}
                return {Root("SELFATTR", e.attr)}
            return set(base)
        if isinstance(e, ast.Subscript):
            base = rec(e.value)
            if self.is_docname(e.slice, fi) and isinstance(e.value, ast.Attribute) and e.value.attr in ENV_MERGED:
                return {r.keyed() for r in base}
            return {r.derived() for r in base}
        if isinstance(e, ast.Call):
            d = dotted(e.func) or ""
            full = mod.resolve(d) if d else ""
            lf, lb = self.lookup(d.split(".")[0], fi) if d else (None, None)
            if lb is not None and lb[0][0] == "import":
                full = lb[0][1] + ("." + d.split(".", 1)[1] if "." in d else "")
            if d == "cast" and len(e.args) == 2:
                return set(rec(e.args[1]))
            if d == "getattr" and e.args:
                if len(e.args) > 1 and isinstance(e.args[1], ast.Constant) and e.args[1].value in ENV_ATTRS:
                    return {Root("ENV", "getattr env", False, True)}
                return {r.derived() for r in rec(e.args[0])}
            if d == "type" and len(e.args) == 1:
                return {Root("CLASSOBJ", "type(x)")}
            if full in REGISTRY_CALLS:
                return {Root("REGISTRY", REGISTRY_CALLS[full])}
            if d in FRESH_CALLS or full in FRESH_CALLS:
                return {Root("FRESH", f"{d}(...)")}
            if isinstance(e.func, ast.Attribute):
                m = e.func.attr
                if m in ("copy", "deepcopy", "__copy__", "replace", "split", "splitlines", "strip", "join", "format", "lower", "upper"):
                    return {Root("FRESH", f".{m}()")}
                recv = rec(e.func.value)
                if m in ELEMENT_READS:
                    if e.args and self.is_docname(e.args[0], fi) and isinstance(e.func.value, ast.Attribute) and e.func.value.attr in ENV_MERGED:
                        return {r.keyed() for r in recv}
                    return {r.derived() for r in recv}
                if m.startswith("get_") and any(r.kind == "ENV" for r in recv):
                    return {r.derived() for r in recv if r.kind == "ENV"}
            if isinstance(e.func, ast.Name) and (self.c.find_class(full) is not None):
                return {Root("FRESH", f"new {d}")}
            try:
                targets = self.g.resolve_call(e, fi)
            except Exception:
                targets = []
            fts = [t for t in targets if isinstance(t, FunctionInfo) and not t.is_lambda and t.name not in ("__init__", "__post_init__")]
            if fts and len(fts) == len(targets) and len(fts) <= 3 and depth < 8:
                out = set()
                for t in fts:
                    if ("callret", t.fq) in seen:
                        self._cuts += 1
                        continue
                    for n in walk_local(t.node, into_lambdas=False):
                        if isinstance(n, ast.Return) and n.value is not None:
                            out |= {r.derived() for r in self.classify(n.value, t, depth + 2, seen | {("callret", t.fq)}) if r.kind in SHARED}
                if out:
                    return out
            return {Root("CALL", full or short(e.func, 30))}
        if isinstance(e, ast.IfExp):
            return set(rec(e.body)) | set(rec(e.orelse))
        if isinstance(e, ast.BoolOp):
            out = set()
            for v in e.values:
                out |= rec(v)
            return out
        if isinstance(e, ast.NamedExpr):
            return set(rec(e.value))
        if isinstance(e, ast.Starred):
            return set(rec(e.value))
        if isinstance(e, (ast.Constant, ast.Dict, ast.List, ast.Set, ast.Tuple, ast.ListComp, ast.SetComp, ast.DictComp, ast.GeneratorExp, ast.JoinedStr, ast.Lambda, ast.BinOp, ast.UnaryOp, ast.Compare)):
            return {Root("FRESH", type(e).__name__)}
        return {Root("UNKNOWN", type(e).__name__)}

    def _self_store_index(self, ci) -> dict[str, list]:
        idx = self._bind.get(("selfstores", ci.fq))
        if idx is not None:
            return idx
        idx = {}
        self._bind[("selfstores", ci.fq)] = idx
        rel = {c.fq: c for c in [ci] + self.c.mro(ci) + self.c.subclasses(ci)}
        for c in rel.values():
            for meth in c.methods.values():
                for n in walk_local(meth.node, into_lambdas=False):
                    pairs = []
                    if isinstance(n, ast.Assign):
                        pairs = [(t, n.value) for t in n.targets]
                    elif isinstance(n, ast.AnnAssign) and n.value is not None:
                        pairs = [(n.target, n.value)]
                    for t, v in pairs:
                        if isinstance(t, ast.Attribute) and isinstance(t.value, ast.Name) and t.value.id == "self":
                            idx.setdefault(t.attr, []).append((meth, v))
        return idx

    def self_attr_store_roots(self, cls_fq: str, attr: str, depth: int, seen: frozenset):
        """Roots of every value stored to ``self.attr`` by the methods of the class and its relatives."""
        key = ("selfattr", cls_fq, attr)
        if key in seen or depth > 8:
            self._cuts += 1
            return None
        if not seen and key in self._param:
            return self._param[key]
        m, _, q = cls_fq.partition(":")
        try:
            ci = self.c.modules[m].classes[q]
        except KeyError:
            return None
        stores = self._self_store_index(ci).get(attr)
        if not stores:
            return None
        out: set = set()
        for meth, v in stores:
            out |= self.classify(v, meth, depth + 2, seen | {key})
        if not seen:
            self._param[key] = out
        return out

    def class_level_mutable(self, cls_fq: str, attr: str) -> str | None:
        """``self.attr`` names a mutable object defined in a class body and never rebound per instance."""
        m, _, q = cls_fq.partition(":")
        try:
            ci = self.c.modules[m].classes[q]
        except KeyError:
            return None
        defined = None
        for c in self.c.mro(ci):
            for st in c.node.body:
                tgt = val = None
                if isinstance(st, ast.Assign) and len(st.targets) == 1:
                    tgt, val = st.targets[0], st.value
                elif isinstance(st, ast.AnnAssign):
                    tgt, val = st.target, st.value
                if isinstance(tgt, ast.Name) and tgt.id == attr and val is not None:
                    if isinstance(val, (ast.Dict, ast.List, ast.Set, ast.ListComp, ast.DictComp, ast.SetComp, ast.GeneratorExp)) or (
                        isinstance(val, ast.Call) and (dotted(val.func) or "").rsplit(".", 1)[-1] in STATEFUL_CTORS
                    ):
                        defined = f"class-level mutable {c.fq}.{attr}"
        if defined is None:
            return None
        for c in [ci] + self.c.subclasses(ci) + self.c.mro(ci):
            for meth in c.methods.values():
                for n in walk_local(meth.node):
                    tg = n.targets if isinstance(n, ast.Assign) else [n.target] if isinstance(n, (ast.AnnAssign, ast.AugAssign)) else []
                    for t in tg:
                        if isinstance(t, ast.Attribute) and t.attr == attr and isinstance(t.value, ast.Name) and t.value.id == "self":
                            return None
        return defined

    # -- parameters: annotation first, then every call site -------------------------------
    def param_roots(self, f: FunctionInfo, name: str, depth: int, seen: frozenset) -> frozenset:
        key = (f.fq, name)
        if key in self._param:
            return self._param[key]
        if key in seen or depth > 10:
            self._cuts += 1
            return frozenset()  # recursion through the call graph: contributes nothing new (least fixpoint)
        cuts0 = self._cuts
        a = f.node.args
        ann = None
        for x in a.posonlyargs + a.args + a.kwonlyargs:
            if x.arg == name:
                ann = x.annotation
        out: set = set()
        if name == "cls" and f.cls is not None and f.params and f.params[0] == "cls":
            out.add(Root("CLASSOBJ", f"cls of {f.cls.fq}"))
        if ann is not None:
            text = unparse(ann).strip("'\"")
            heads = {f.module.resolve(p.strip()) for p in text.replace("None", "").split("|") if p.strip()}
            if text.startswith(("type[", "Type[")):
                out.add(Root("CLASSOBJ", f"parameter {name}: {text}"))
            elif any(h.endswith("config.main.MdParserConfig") for h in heads):
                out.add(Root("CONFIG", f"parameter {name}: MdParserConfig (callers may pass the global config)"))
            elif heads & ENV_TYPES:
                out.add(Root("ENV", f"parameter {name}: {text}", False, True))
        ann_roots = {r for r in out if r.kind == "CONFIG"}
        if ann_roots == out:
            out = set()  # an annotated config parameter: its call sites say whether the object is the shared one
        if not out:
            idx = f.params.index(name)
            shift = 1 if (f.cls is not None and f.params and f.params[0] in ("self", "cls")) else 0
            sites = self.g.callers().get(f.fq, [])
            for cfi, call in sites:
                arg = None
                pos = idx - shift
                if 0 <= pos < len(call.args) and not any(isinstance(x, ast.Starred) for x in call.args[: pos + 1]):
                    arg = call.args[pos]
                for kw in call.keywords:
                    if kw.arg == name:
                        arg = kw.value
                if arg is None:
                    continue
                for r in self.classify(arg, cfi, depth + 1, seen | {key}):
                    if r.kind in SHARED and " <- " not in r.why:
                        r = Root(r.kind, f"{r.why} <- passed as `{name}` by {cfi.qualname}: `{short(call, 60)}`", r.dockey, r.obj)
                    out.add(r)
            if not out and not seen:
                out |= ann_roots or {Root("PARAM", f"{f.qualname}({name})")}
            elif not out:
                self._cuts += 1  # the top-level answer would add a PARAM marker here
        r = frozenset(out)
        if not seen or self._cuts == cuts0:
            self._param[key] = r
        return r

    # -- write sites -------------------------------------------------------------------------
    def sites(self) -> list[Site]:
        if self._sites is not None:
            return self._sites
        out: list[Site] = []
        for fi in self.c.all_functions():
            if fi.module.name.endswith("._docs"):
                continue
            globals_declared: set[str] = set()
            for n in walk_local(fi.node, into_lambdas=False):
                if isinstance(n, ast.Global):
                    globals_declared.update(n.names)
            for n in walk_local(fi.node, into_lambdas=False):
                tgts: list[tuple[ast.expr, str, ast.expr | None]] = []
                if isinstance(n, ast.Assign):
                    tgts = [(x, "store", n.value) for t in n.targets for x, _ in _flatten(t)]
                elif isinstance(n, ast.AnnAssign) and n.value is not None:
                    tgts = [(n.target, "store", n.value)]
                elif isinstance(n, ast.AugAssign):
                    tgts = [(n.target, "aug", n.value)]
                elif isinstance(n, ast.Delete):
                    tgts = [(x, "del", None) for t in n.targets for x, _ in _flatten(t)]
                for t, how, val in tgts:
                    if isinstance(t, (ast.Attribute, ast.Subscript)):
                        out.append(Site(fi, n, t.value, _ntext(t, fi), how, val))
                    elif isinstance(t, ast.Name) and t.id in globals_declared:
                        out.append(Site(fi, n, t, t.id, "global", val))
                if isinstance(n, ast.Call):
                    d = dotted(n.func)
                    if d == "next" and n.args:
                        # advancing an iterator/counter is a write to it
                        out.append(Site(fi, n, n.args[0], _ntext(n.args[0], fi), "mutator:next"))
                    if d in ("setattr", "delattr") and n.args:
                        attr = n.args[1].value if len(n.args) > 1 and isinstance(n.args[1], ast.Constant) else "*"
                        out.append(Site(fi, n, n.args[0], f"{_ntext(ast.Attribute(value=n.args[0], attr='x', ctx=ast.Load()), fi)[:-2]}.{attr}", "setattr", n.args[2] if len(n.args) > 2 else None))
                    elif isinstance(n.func, ast.Attribute) and n.func.attr in MUTATORS:
                        out.append(Site(fi, n, n.func.value, _ntext(n.func.value, fi), f"mutator:{n.func.attr}"))
                    elif isinstance(n.func, ast.Attribute) and n.func.attr not in _VALUE_METHODS:
                        if any(r.kind == "ENV" for r in self.classify(n.func.value, fi)) and not self.g.flat_targets(self.g.resolve_call(n, fi)):
                            out.append(Site(fi, n, n.func.value, unparse(n.func.value), f"envcall:{n.func.attr}"))
                        elif isinstance(n.func.value, (ast.Name, ast.Attribute)) and not n.func.attr.startswith("__"):
                            sic = self.stateful_instance_class(n.func.value, fi)
                            if sic is not None:
                                why = self.method_keeps_state(sic[0], n.func.attr)
                                if why:
                                    out.append(Site(fi, n, n.func.value, _ntext(n.func.value, fi), f"instcall:{n.func.attr}", None))
                                    self._inst_why[id(n)] = (sic[0], sic[1], why)
                    if not (isinstance(n.func, ast.Attribute) and n.func.attr in MUTATORS):
                        for a in list(n.args) + [k.value for k in n.keywords]:
                            if isinstance(a, (ast.Name, ast.Attribute)) and any(r.kind == "ENV" and r.obj for r in self.classify(a, fi)):
                                out.append(Site(fi, n, a, unparse(a), "envarg:" + self.callee_name(n, fi)))
        self._sites = out
        return out

    def stateful_instance_class(self, e: ast.expr, fi: FunctionInfo, _depth: int = 0):
        """``e`` is a module-level (or class-level) name bound to ``C(...)`` where C is a package class that keeps state:
        returns (ClassInfo, where) or None."""
        val = None
        where = ""
        if isinstance(e, ast.Name):
            f, binds = self.lookup(e.id, fi)
            if binds is not None and len(binds) == 1 and binds[0][0] == "assign" and not binds[0][2] and isinstance(binds[0][1], (ast.Name, ast.Attribute)) and not (isinstance(binds[0][1], ast.Name) and binds[0][1].id == e.id):
                return self.stateful_instance_class(binds[0][1], f, _depth + 1) if _depth < 4 else None  # local alias of the shared instance
            if binds is None and e.id in fi.module.const_nodes:
                val, where = fi.module.const_nodes[e.id], f"module-level {fi.module.name}.{e.id}"
            elif binds is not None and len(binds) == 1 and binds[0][0] == "import":
                full = binds[0][1]
                mn, _, nm = full.rpartition(".")
                m2 = self.c.modules.get(mn)
                if m2 is not None and nm in m2.const_nodes:
                    val, where = m2.const_nodes[nm], f"module-level {full}"
            elif binds is None and e.id in fi.module.imports:
                full = fi.module.imports[e.id]
                mn, _, nm = full.rpartition(".")
                m2 = self.c.modules.get(mn)
                if m2 is not None and nm in m2.const_nodes:
                    val, where = m2.const_nodes[nm], f"module-level {full}"
        elif isinstance(e, ast.Attribute) and isinstance(e.value, ast.Name) and e.value.id in ("self", "cls"):
            so = self.self_owner(fi)
            if so is not None:
                for c in self.c.mro(so.cls):
                    for st in c.node.body:
                        if isinstance(st, (ast.Assign, ast.AnnAssign)) and st.value is not None:
                            tg = st.targets[0] if isinstance(st, ast.Assign) else st.target
                            if isinstance(tg, ast.Name) and tg.id == e.attr and self._self_store_index(so.cls).get(e.attr) is None:
                                val, where = st.value, f"class-level {c.fq}.{e.attr}"
        if not isinstance(val, ast.Call):
            return None
        d = dotted(val.func)
        if not d:
            return None
        mod = val._mod if hasattr(val, "_mod") else fi.module
        ci = self.c.find_class(mod.resolve(d))
        if ci is None or _class_is_immutable(self.c, ci):
            return None
        return ci, where

    def method_keeps_state(self, ci, name: str, depth: int = 0, seen: frozenset = frozenset()) -> str | None:
        """Why calling ``name`` on an instance of ``ci`` changes the instance (None: it does not, as far as can be seen)."""
        m = self.c.lookup_method(ci, name)
        if m is None:
            ext = self.c.external_bases(ci)
            return f"`{name}` is inherited from {ext[0]}" if ext else None
        if m.fq in seen or depth > 2:
            return None
        for n in walk_local(m.node, into_lambdas=False):
            tg = n.targets if isinstance(n, ast.Assign) else [n.target] if isinstance(n, (ast.AugAssign, ast.AnnAssign)) else []
            for t0 in tg:
                for t, _ in _flatten(t0):
                    r = t
                    while isinstance(r, (ast.Attribute, ast.Subscript)):
                        r = r.value
                    if isinstance(t, (ast.Attribute, ast.Subscript)) and isinstance(r, ast.Name) and r.id == "self":
                        return f"{m.qualname} writes `{short(t, 30)}`"
            if isinstance(n, ast.Call) and isinstance(n.func, ast.Attribute):
                d = dotted(n.func) or ""
                if d.startswith("super().") and self.c.external_bases(ci):
                    return f"{m.qualname} calls {d}() of {self.c.external_bases(ci)[0]}"
                if d.startswith("self.") and d.count(".") >= 2 and n.func.attr in MUTATORS:
                    return f"{m.qualname} calls `{d}()`"
                if d.startswith("self.") and d.count(".") == 1:
                    r2 = self.method_keeps_state(ci, n.func.attr, depth + 1, seen | {m.fq})
                    if r2:
                        return r2
        return None

    def callee_name(self, call: ast.Call, fi: FunctionInfo) -> str:
        d = dotted(call.func) or ""
        if not d:
            return short(call.func, 40)
        head = d.split(".")[0]
        f, b = self.lookup(head, fi)
        if b is not None and b[0][0] == "import":
            return b[0][1] + ("." + d.split(".", 1)[1] if "." in d else "")
        if b is not None:
            return d
        return fi.module.resolve(d)

    def roots(self, s: Site) -> frozenset:
        return self.classify(s.container, s.fi)


def _effects(corpus: Corpus) -> Effects:
    return corpus.cache("c15-effects", lambda: Effects(corpus))


# ---------------------------------------------------------------------------
# helpers shared by R1/R2


def _try_with_finally(node: ast.AST) -> list[ast.Try]:
    """Enclosing ``try`` statements (innermost first) that have a ``finally`` and hold ``node`` in body/handlers/else."""
    out = []
    child = node
    for a in ancestors(node):
        if isinstance(a, (ast.FunctionDef, ast.AsyncFunctionDef, ast.Lambda)):
            break
        if isinstance(a, ast.Try) and a.finalbody and not any(child is s for s in a.finalbody):
            out.append(a)
        child = a
    return out


def _in_finally(node: ast.AST) -> ast.Try | None:
    child = node
    for a in ancestors(node):
        if isinstance(a, (ast.FunctionDef, ast.AsyncFunctionDef, ast.Lambda)):
            return None
        if isinstance(a, ast.Try) and any(child is s for s in a.finalbody):
            return a
        child = a
    return None


def _covering_tries(fi: FunctionInfo, node: ast.AST) -> list[ast.Try]:
    """try/finally statements protecting ``node``: those enclosing it, plus a ``try`` that follows its statement in the
    same block with nothing but call-free assignments in between (nothing can raise before the try is entered)."""
    out = _try_with_finally(node)
    st = node
    while not isinstance(st, ast.stmt):
        st = parent(st)
    p = parent(st)
    for fld in ("body", "orelse", "finalbody"):
        blk = getattr(p, fld, None)
        if isinstance(blk, list) and st in blk:
            for nxt in blk[blk.index(st) + 1 :]:
                if isinstance(nxt, ast.Try) and nxt.finalbody:
                    out.append(nxt)
                    break
                if isinstance(nxt, (ast.Assign, ast.AnnAssign)) and not any(isinstance(c, ast.Call) for c in ast.walk(nxt)):
                    continue
                break
    return out


def _on_every_parse(ef: Effects, fi: FunctionInfo, node: ast.AST, written: str, depth: int = 0):
    """True: the statement runs on every parse that reaches the render call (directly in a parse method, or in a helper
    that a parse method calls unconditionally); False: it is conditional on the document; None: not understood."""
    cfg = get_cfg(fi)
    st = cfg.stmt_of(node)
    # an idempotence guard that only looks at the written place does not make the install content-dependent
    p = parent(st)
    while isinstance(p, ast.If) and not p.orelse and any(w and w in unparse(p.test) for w in written.split("||")) and st in p.body:
        st, p = p, parent(p)
    entry_fqs = {ef.c.func(e).fq for e in RENDER_ENTRIES}
    if fi.fq in entry_fqs:
        rcs = _render_calls(ef, fi)
        if not rcs:
            return None
        return all(cfg.dominates(st, cfg.stmt_of(rc)) or cfg.postdominates(st, cfg.stmt_of(rc)) for rc in rcs)
    if depth >= 2 or fi.is_lambda:
        return False
    if not cfg.postdominates(st, "ENTRY"):
        return False
    callers = [(c, call) for c, call in ef.g.callers().get(fi.fq, []) if c.fq in ef.parse_reach]
    if not callers:
        return None
    res = [_on_every_parse(ef, c, call, written, depth + 1) for c, call in callers]
    if all(r is True for r in res):
        return True
    return False if any(r is False for r in res) else None


def _on_every_render(ef: Effects, fi: FunctionInfo, node: ast.AST, depth: int = 0):
    """The statement executes on every normal path of the renderer's render() (directly or through methods that
    render() calls unconditionally)."""
    if fi.is_lambda:
        return False
    cfg = get_cfg(fi)
    st = cfg.stmt_of(node)
    p = parent(st)
    while isinstance(p, ast.For) and isinstance(p.iter, (ast.Tuple, ast.List)) and p.iter.elts and st in p.body and not any(isinstance(x, (ast.Break, ast.Continue)) for x in ast.walk(p)):
        st, p = p, parent(p)  # a loop over a non-empty literal always runs its body
    if not cfg.postdominates(st, "ENTRY"):
        return False
    impls = {t.fq for t in ef.g.special_targets(MD_RENDER, fi)}
    if fi.fq in impls:
        return True
    if depth >= 3:
        return None
    callers = [(c, call) for c, call in ef.g.callers().get(fi.fq, []) if c.fq in ef.parse_reach]
    if not callers:
        return None
    res = [_on_every_render(ef, c, call, depth + 1) for c, call in callers]
    if all(r is True for r in res):
        return True
    return False if any(r is False for r in res) else None


def _stores_in(stmts: list[ast.stmt]):
    for st in stmts:
        for n in ast.walk(st):
            if isinstance(n, ast.Assign) and len(n.targets) == 1 and isinstance(n.targets[0], (ast.Attribute, ast.Subscript)):
                yield n


def _covers(place: str, written: str) -> bool:
    """Restoring ``place`` also restores ``written`` (same place or something inside it)."""
    return written == place or written.startswith(place + ".") or written.startswith(place + "[")


_COPY_CALLS = {"copy", "deepcopy", "copy.copy", "copy.deepcopy", "set", "dict", "list", "frozenset", "tuple"}


def _saved_from(value: ast.expr, place: str, fi: FunctionInfo) -> str | None:
    """'copy' / 'alias' when ``value`` reads ``place`` (the normalised text of an attribute/subscript expression), else None."""
    nt = lambda x: _ntext(x, fi)  # noqa: E731
    if nt(value) == place:
        return "alias"
    if isinstance(value, ast.Subscript) and isinstance(value.slice, ast.Slice) and value.slice.lower is None and value.slice.upper is None and nt(value.value) == place:
        return "copy"  # X[:]
    if isinstance(value, (ast.List, ast.Set, ast.Tuple)) and len(value.elts) == 1 and isinstance(value.elts[0], ast.Starred) and nt(value.elts[0].value) == place:
        return "copy"  # [*X]
    if isinstance(value, ast.Dict) and value.keys == [None] and nt(value.values[0]) == place:
        return "copy"  # {**X}
    if isinstance(value, ast.Call):
        d = dotted(value.func) or ""
        if d in _COPY_CALLS and len(value.args) == 1 and nt(value.args[0]) == place:
            return "copy"
        if isinstance(value.func, ast.Attribute) and value.func.attr in ("copy", "deepcopy") and nt(value.func.value) == place:
            return "copy"
        if d in _COPY_CALLS and len(value.args) == 1 and isinstance(value.args[0], ast.Call) and isinstance(value.args[0].func, ast.Attribute) and value.args[0].func.attr in ("items", "copy", "keys", "values") and nt(value.args[0].func.value) == place:
            return "copy"  # dict(X.items())
        if d == "getattr" and len(value.args) >= 2 and isinstance(value.args[1], ast.Constant) and f"{nt(ast.Attribute(value=value.args[0], attr='x', ctx=ast.Load()))[:-2]}.{value.args[1].value}" == place:
            return "alias"
        if isinstance(value.func, ast.Attribute) and value.func.attr == "get" and value.args and f"{nt(value.func.value)}[{unparse(value.args[0])}]" == place:
            return "alias"
    return None


def _reads_a_place(v: ast.expr) -> bool:
    """``v`` is a read (possibly copied) of some attribute/subscript place: X.a, X[k], X.get(k), getattr(X, 'a'), copy(X.a) ..."""
    if isinstance(v, (ast.Attribute, ast.Subscript)):
        return True
    if isinstance(v, ast.Call):
        d = dotted(v.func) or ""
        if d == "getattr" or (isinstance(v.func, ast.Attribute) and v.func.attr == "get"):
            return True
        if (d in _COPY_CALLS or (isinstance(v.func, ast.Attribute) and v.func.attr in ("copy", "deepcopy"))) and (v.args or isinstance(v.func, ast.Attribute)):
            inner = v.args[0] if v.args else v.func.value
            return isinstance(inner, (ast.Attribute, ast.Subscript)) or (isinstance(inner, ast.Call) and _reads_a_place(inner))
    return False


def _same_guards(cfg, d: ast.stmt, restore: ast.stmt) -> bool:
    """The save is conditional, but the restore runs under (at least) the same conditions (`if x is not None:` twice)."""
    try:
        gd = {(unparse(t), pol) for t, pol in cfg.guards(cfg.stmt_of(d))}
        gr = {(unparse(t), pol) for t, pol in cfg.guards(cfg.stmt_of(restore))}
    except Exception:
        return False
    if gd and not gd <= gr:
        # flag correlation: `flag = False; if c: flag = True; saved = PLACE ... if flag: PLACE = saved`
        fi_ = cfg.fi
        blk = None
        pd = parent(cfg.stmt_of(d))
        for fld in ("body", "orelse"):
            if cfg.stmt_of(d) in getattr(pd, fld, []):
                blk = getattr(pd, fld)
        for t, pol in cfg.guards(cfg.stmt_of(restore)):
            if isinstance(t, ast.Name) and pol and blk is not None:
                defs_ = _name_defs(fi_, t.id)
                consts = [x for x in defs_ if isinstance(x, ast.Assign) and isinstance(x.value, ast.Constant)]
                truthy = [x for x in consts if x.value.value]
                if defs_ and len(consts) == len(defs_) and truthy and all(x in blk for x in truthy) and t.id not in fi_.params:
                    return True
        return False
    if not gd:
        return False
    # the tested names must not change in between: only parameters / names assigned once
    fi = cfg.fi
    for text, _ in gd:
        for nm in {n.id for n in ast.walk(ast.parse(text, mode="eval")) if isinstance(n, ast.Name)}:
            owner = fi
            while owner is not None and nm not in owner.params:
                owner = owner.parent_func
            if owner is None and len(_name_defs(fi, nm)) > 1:
                return False
    return True


def _name_defs(fi: FunctionInfo, name: str) -> list[ast.stmt]:
    out = []
    for n in walk_local(fi.node, into_lambdas=False):
        if isinstance(n, ast.Assign) and any(isinstance(x, ast.Name) and x.id == name for t in n.targets for x, _ in _flatten(t)):
            out.append(n)
        elif isinstance(n, (ast.AnnAssign, ast.AugAssign)) and isinstance(n.target, ast.Name) and n.target.id == name:
            out.append(n)
    return out


def _restore_info(fi: FunctionInfo, st: ast.Assign):
    """For ``PLACE = name``: (name, [(def stmt, 'copy'|'alias'|None)]) or None when the RHS is not a plain name."""
    if not isinstance(st.value, ast.Name):
        return None
    place = _ntext(st.targets[0], fi)
    defs = _name_defs(fi, st.value.id)
    return st.value.id, [(d, _saved_from(d.value, place, fi) if getattr(d, "value", None) is not None else None) for d in defs]


def _is_constant_rhs(v: ast.expr | None, fi: FunctionInfo, ef: Effects) -> str | None:
    if v is None:
        return None
    if isinstance(v, ast.Constant):
        return f"constant {v.value!r}"
    if isinstance(v, ast.Tuple) and all(_is_constant_rhs(x, fi, ef) for x in v.elts):
        return "tuple of constants"
    d = dotted(v)
    if d:
        head = d.split(".")[0]
        f, b = ef.lookup(head, fi)
        if b is not None and b[0][0] != "import":
            return None
        full = fi.module.resolve(d)
        fn = ef.c.find_function(full)
        if fn is not None and fn.parent_func is None and fn.cls is None:
            return f"module-level function {fn.fq}"
        if head in fi.module.imports and "." in d and fi.module.imports[head].split(".")[0] in ("docutils", "sphinx"):
            return f"library constant {full}"
    return None


def _render_calls(ef: Effects, fi: FunctionInfo) -> list[ast.Call]:
    """The call(s) of a parse method that run the renderer: parser.render(...) itself, or the call of a helper
    that does it (one level)."""
    out = []
    for call, targets in ef.g.callees(fi):
        if any(isinstance(t, Special) and t.kind == MD_RENDER for t in targets) or ef.special_kind(call, fi) == MD_RENDER:
            out.append(call)
    if not out:
        for call, targets in ef.g.callees(fi):
            for t in ef.g.flat_targets(targets):
                if not t.is_lambda and t.fq != fi.fq and any(ef.special_kind(c2, t) == MD_RENDER or any(isinstance(x, Special) and x.kind == MD_RENDER for x in tg2) for c2, tg2 in ef.g.callees(t)):
                    out.append(call)
    return out


# ---------------------------------------------------------------------------
# R1 effect classification


EFFECT_PREFIXES = ("note_", "add_", "set_", "register", "clear", "merge", "process_", "remove", "connect", "emit", "update", "store", "write", "delete")


def _structural_env_receiver(ef: Effects, e: ast.expr, fi: FunctionInfo) -> bool:
    """The receiver is the env/app/a domain itself (an attribute chain on them, or a local bound to one), not data read out of it."""
    def marked(x: ast.expr) -> bool:
        return any(isinstance(n, ast.Attribute) and (n.attr in ENV_ATTRS or n.attr == "sphinx_env") for n in ast.walk(x)) or any(
            isinstance(n, ast.Name) and any(r.kind == "ENV" and r.obj for r in ef.classify(n, fi)) for n in ast.walk(x) if isinstance(n, ast.Name) and n.id != "self"
        )

    if marked(e):
        return True
    if isinstance(e, ast.Name):
        f, binds = ef.lookup(e.id, fi)
        return any(kind == "assign" and v is not None and marked(v) for kind, v, _ in binds or [])
    return False


def _sibling_env_use(ef: Effects, callee: str, call: ast.Call, env_arg: ast.expr):
    """Read the library function that receives the env: (True, why) when it only reads attributes of it and calls
    tabled current-document / read-only env methods; (False, why) when it does something else; None when the source
    cannot be found."""
    modname, _, fname = callee.rpartition(".")
    if not modname or not fname:
        return None
    try:
        m = ef.c.sibling_module(modname)
    except Exception:
        m = None
    if m is None or fname not in m.functions:
        return None
    fn = m.functions[fname]
    if fn.is_lambda:
        return None
    # which parameter receives the env
    pname = None
    for i, a in enumerate(call.args):
        if a is env_arg and i < len(fn.params):
            pname = fn.params[i]
    for kw in call.keywords:
        if kw.value is env_arg and kw.arg in fn.params:
            pname = kw.arg
    if pname is None:
        return False, "cannot map the argument to a parameter"
    used = []
    for n in walk_local(fn.node):
        if isinstance(n, ast.Name) and n.id == pname:
            p_ = parent(n)
            if isinstance(p_, ast.Attribute) and p_.value is n:
                pp = parent(p_)
                if isinstance(pp, ast.Call) and pp.func is p_:
                    if p_.attr in ENV_PURE or p_.attr in ENV_API:
                        used.append(f"{pname}.{p_.attr}()")
                        continue
                    return False, f"calls {pname}.{p_.attr}(...), which is not a tabled env method"
                if isinstance(p_.ctx, ast.Load):
                    if isinstance(pp, (ast.Attribute, ast.Subscript)) and isinstance(getattr(pp, "ctx", None), (ast.Store, ast.Del)):
                        return False, f"writes below {pname}.{p_.attr}"
                    if isinstance(pp, ast.Attribute) and isinstance(parent(pp), ast.Call) and parent(pp).func is pp and pp.attr in MUTATORS:
                        return False, f"mutates {pname}.{p_.attr}"
                    used.append(f"{pname}.{p_.attr}")
                    continue
                return False, f"assigns {pname}.{p_.attr}"
            if isinstance(p_, (ast.Compare, ast.BoolOp, ast.UnaryOp, ast.If, ast.IfExp)):
                continue
            if isinstance(p_, ast.arg):
                continue
            return False, f"passes `{pname}` on (`{short(p_, 40)}`)"
    rep_ = ", ".join(sorted(set(used))[:4]) or "does not use it"
    apis = [u for u in set(used) if u.endswith("()") and u[len(pname) + 1 : -2] in ENV_API]
    return True, f"{callee} uses the env only through {rep_}" + (f" ({'; '.join(ENV_API[a[len(pname) + 1 : -2]] for a in apis)})" if apis else "")


def _settings_feedback(ef: Effects, s: Site) -> str | None:
    """The stored settings attribute is one the package reads back as *configuration input* of the next parse."""
    rd = _settings_config_reader(ef)
    if rd is None:
        return None
    reader, prefix = rd
    attr = None
    if s.how == "store":
        tg = s.node.targets[0] if isinstance(s.node, ast.Assign) else getattr(s.node, "target", None)
        for t, _ in _flatten(tg) if tg is not None else []:
            if isinstance(t, ast.Attribute) and t.value is s.container:
                attr = t.attr
    elif s.how == "setattr" and isinstance(s.node, ast.Call) and len(s.node.args) > 1:
        a1 = s.node.args[1]
        if isinstance(a1, ast.Constant) and isinstance(a1.value, str):
            attr = a1.value
        elif isinstance(a1, ast.JoinedStr) and a1.values and isinstance(a1.values[0], ast.Constant) and str(a1.values[0].value).startswith(prefix):
            attr = prefix + "*"
    if attr is None or not attr.startswith(prefix):
        return None
    fields = _config_field_names(ef.c)
    if attr != prefix + "*" and attr[len(prefix):] not in fields:
        return None
    return (
        f"`{attr}` is also the name under which {reader.qualname} reads the configuration field `{attr[len(prefix):]}` from the settings object at the start of the next parse: "
        "with a settings object that is used for more than one document (docutils Publisher / publish_* with settings=...) the file-level value of one document "
        "(front matter) becomes the global configuration of the next"
    )


def _temp_data_per_document(corpus: Corpus) -> str | None:
    """Re-read from Sphinx's source: Builder.read_doc discards env.temp_data / env.ref_context after every document."""
    def compute():
        try:
            b = corpus.sibling("sphinx/builders/__init__.py")
        except AnchorMissing:
            return None
        rd = b.functions.get("Builder.read_doc")
        if rd is None:
            return None
        cleared = set()
        for n in walk_local(rd.node):
            if isinstance(n, ast.Call) and isinstance(n.func, ast.Attribute) and n.func.attr == "clear":
                cleared.add((dotted(n.func.value) or "").rsplit(".", 1)[-1])
            if isinstance(n, ast.Assign) and isinstance(n.targets[0], ast.Attribute) and isinstance(n.value, ast.Call):
                cleared.add(n.targets[0].attr)
        if "temp_data" in cleared:
            return f"{b.rel}: read_doc calls env.temp_data.clear() after every document"
        if "current_document" in cleared:
            try:
                e = corpus.sibling("sphinx/environment/__init__.py")
            except AnchorMissing:
                return None
            td = e.functions.get("BuildEnvironment.temp_data")
            if td is not None and any(isinstance(n, ast.Return) and n.value is not None and unparse(n.value) == "self.current_document" for n in walk_local(td.node)):
                return f"{b.rel}: read_doc installs a new env.current_document after every document, and env.temp_data is that object ({e.rel})"
        return None

    return corpus.cache("c15-temp-data-fact", compute)


def _judge_shared(ef: Effects, s: Site, roots: frozenset) -> tuple[str, str]:
    """('ok'|'assumed'|'violation'|'error', reason) for a write whose object has a shared root."""
    fi = s.fi
    kinds = sorted({r.kind for r in roots if r.kind in SHARED})
    whys = "; ".join(sorted({r.why for r in roots if r.kind in SHARED}))[:200]
    what = f"{s.how} on `{short(s.container, 60)}` ({'/'.join(kinds)}: {whys})"
    if fi.fq not in ef.parse_reach:
        if s.how.startswith(("envcall:", "envarg:")):
            return "skip", ""  # reading/using the env outside a parse (post-transform, setup) is not a parse effect
        if fi.fq in ef.build_reach:
            return "ok", "once per build: only reachable from setup()/builder-inited, never from a parse entry"
        return "assumed", "not reachable from any parse entry, transform, directive or role in the call graph (CLI / helper)"
    # --- reachable from a parse ---------------------------------------------------------
    if s.how.startswith("instcall:"):
        ci_, where_, why_ = ef._inst_why[id(s.node)]
        return "violation", (
            f"`{short(s.node, 60)}` uses the {where_}, one `{ci_.name}` instance created at import time and shared by every parse in the process; "
            f"it keeps state ({why_}), so what one document leaves in it is seen by the next"
        )
    if s.how.startswith("envcall:"):
        m = s.how.split(":", 1)[1]
        if m in ENV_PURE:
            return "skip", ""
        if m in ENV_API:
            if m == "note_equation":
                call = s.node
                if not (call.args and ef.is_docname(call.args[0], fi)):
                    return "violation", f"{what}: equation registered under a key that is not env.docname"
            return "ok", "tabled env API: " + ENV_API[m]
        if m.startswith(EFFECT_PREFIXES) or _structural_env_receiver(ef, s.container, fi):
            return "error", f"{s.site}: unknown method `{m}` called on the Sphinx env/app/domain in parse reach ({short(s.node, 60)}): add it to ENV_API or ENV_PURE after reading it"
        return "skip", ""  # a method of some value that was read out of the env (flow-insensitive name reuse included)
    if s.how.startswith("envarg:"):
        callee = s.how.split(":", 1)[1]
        if callee in ENV_ARG_API:
            return "ok", "tabled: " + ENV_ARG_API[callee]
        last = callee.rsplit(".", 1)[-1]
        if "." in callee and last in ENV_PURE:
            return "skip", ""
        if "." in callee and last in ENV_API:
            return "ok", "tabled env API: " + ENV_API[last]
        call = s.node
        if ef.g.flat_targets(ef.g.resolve_call(call, fi)):
            return "skip", ""  # a package function: its own writes are judged where they happen
        sib = _sibling_env_use(ef, callee, call, s.container)
        if sib is not None:
            ok_, why_ = sib
            if ok_:
                return "ok", f"library function read from its source: {why_}"
            return "error", f"{s.site}: the Sphinx env/app object is handed to `{callee}`; its source was read but not understood: {why_}"
        return "error", f"{s.site}: the Sphinx env/app object is handed to `{callee}`, which is not in ENV_ARG_API and whose source was not found"
    if any(r.kind == "ENV" for r in roots):
        envroots = [r for r in roots if r.kind == "ENV"]
        if all(r.dockey for r in envroots) or (s.how.startswith("mutator:") and isinstance(s.node, ast.Call) and s.node.args and ef.is_docname(s.node.args[0], fi) and isinstance(s.container, ast.Attribute) and s.container.attr in ENV_MERGED):
            if len(envroots) == len([r for r in roots if r.kind in SHARED]):
                return "ok", "env attribute that Sphinx merges per document (metadata & co.), keyed by env.docname"
    if "SETTINGS" in kinds:
        ctext = unparse(s.container)
        for attr_, why_ in SETTINGS_API.items():
            if f".settings.{attr_}" in s.written:
                return "ok", "tabled: " + why_
        if s.how in ("store", "setattr") and (ctext.endswith("settings") or isinstance(s.container, ast.Name)):
            reads_settings = s.value is not None and any(
                isinstance(n, (ast.Name, ast.Attribute)) and any(r.kind == "SETTINGS" for r in ef.classify(n, fi)) for n in ast.walk(s.value)
            )
            if reads_settings:
                return "violation", f"{what}: the stored value is computed from what the settings object already holds; under Sphinx that is what the previously read document left there"
            fb = _settings_feedback(ef, s)
            if fb:
                return "violation", f"{what}: {fb}"
            if _on_every_render(ef, fi, s.node) is True:
                return "ok", "settings attribute overwritten from the document's own config on every render, before the transforms read it"
            if _on_every_parse(ef, fi, s.node, s.written) is True:
                return "ok", "settings attribute overwritten on every parse that renders"
            return "violation", f"{what}: the store does not happen on every render, so later documents see the value an earlier document left on the shared settings object"
        return "violation", f"{what}: in-place change of an object hanging off the settings object that all documents of a Sphinx build share"
    # save/restore shapes
    if isinstance(s.node, ast.Assign) and s.how == "store":
        info = _restore_info(fi, s.node)
        if info is not None:
            name, defs = info
            if defs and all(kind is not None for _, kind in defs):
                fin = _in_finally(s.node)
                return "ok", f"restore of the value saved in `{name}` from the same place" + (" (in finally)" if fin is not None else "")
    if any(seg in s.written for seg in (".temp_data", ".ref_context")) and any(r.kind == "ENV" for r in roots):
        fact = _temp_data_per_document(ef.c)
        if fact is None:
            return "error", f"{s.site}: `{short(s.node, 50)}` writes env.temp_data/ref_context, but Sphinx's Builder.read_doc was not found to clear/replace them after a read (source re-read on every run)"
        return "ok", "env.temp_data / env.ref_context: per-document scratch space; " + fact
    for tr in _covering_tries(fi, s.node):
        for st in _stores_in(tr.finalbody):
            if _covers(_ntext(st.targets[0], fi), s.written) and _restore_info(fi, st) is not None:
                return "ok", f"temporary: the enclosing try restores `{short(st.targets[0], 50)}` in finally (pairing checked by R2)"
    # constant install executed on every parse
    tgt0 = s.node.targets[0] if isinstance(s.node, ast.Assign) and len(s.node.targets) == 1 else None
    if s.how == "store" and tgt0 is not None and (isinstance(tgt0, ast.Attribute) or (isinstance(tgt0, ast.Subscript) and isinstance(tgt0.slice, ast.Constant))) and all(k in ("CLASSOBJ", "IMPORTED", "GLOBAL", "REGISTRY") for k in kinds):
        const = _is_constant_rhs(s.value, fi, ef)
        if const:
            every = _on_every_parse(ef, fi, s.node, s.written)
            if every is True:
                return "ok", f"idempotent constant install ({const}) on every parse that renders"
            if every is False and "REGISTRY" not in kinds:
                return "violation", f"{what}: the install is not executed on every parse that reaches the render call, so the global state depends on which documents were parsed before"
    # removal of a key under a recorded "it was absent before" test: restores the previous state
    if s.how in ("del", "mutator:pop"):
        keyx = None
        if s.how == "del" and isinstance(s.node, ast.Delete) and len(s.node.targets) == 1 and isinstance(s.node.targets[0], ast.Subscript):
            keyx, placex = s.node.targets[0].slice, s.node.targets[0].value
        elif s.how == "mutator:pop" and isinstance(s.node, ast.Call) and s.node.args:
            keyx, placex = s.node.args[0], s.node.func.value
        if keyx is not None:
            cfg_ = get_cfg(fi)
            st_ = cfg_.stmt_of(s.node)
            for t_, pol_ in cfg_.guards(st_):
                if isinstance(t_, ast.Name) and not pol_:
                    ds_ = _name_defs(fi, t_.id)
                    if len(ds_) == 1 and isinstance(getattr(ds_[0], "value", None), ast.Compare):
                        cmp_ = ds_[0].value
                        if len(cmp_.ops) == 1 and isinstance(cmp_.ops[0], ast.In) and unparse(cmp_.left) == unparse(keyx) and _ntext(cmp_.comparators[0], fi) == _ntext(placex, fi) and ds_[0].lineno < st_.lineno:
                            return "ok", f"restores the absence of the key recorded in `{t_.id}` before the operation"
    # reset of a constant key to "absent" on every parse (what docutils' own parser does with roles._roles[''])
    if all(k in ("CLASSOBJ", "IMPORTED", "GLOBAL") for k in kinds):
        keyc = None
        if s.how == "del" and isinstance(s.node, ast.Delete) and len(s.node.targets) == 1 and isinstance(s.node.targets[0], ast.Subscript):
            keyc = s.node.targets[0].slice
        if s.how == "mutator:pop" and isinstance(s.node, ast.Call) and s.node.args:
            keyc = s.node.args[0]
        if isinstance(keyc, ast.Constant) and _on_every_parse(ef, fi, s.node, s.written + "||" + unparse(s.container)) is True:
            return "ok", f"idempotent reset: key {keyc.value!r} is removed on every parse that renders"
    if "CONFIG" in kinds and any(fi.fq == m.fq or (fi.parent_func is not None and fi.parent_func.fq == m.fq) for m in ef.implicit_entries):
        return "violation", f"{what}: {fi.qualname} is called implicitly on the live configuration object (pickling of the Sphinx env after every read, repr, comparison); writing the object there changes the configuration of every document read afterwards in the process"
    if "CONFIG" in kinds:
        return "violation", f"{what}: the configuration object may be the global one (Sphinx: env.myst_config, shared by all documents); an in-place write outlives this parse"
    if kinds == ["ENV"]:
        return "violation", f"{what}: written into the Sphinx env/app during a parse under a key that is not env.docname; parallel read workers do not merge it and serial builds accumulate it"
    return "violation", f"{what}: the write persists in process-global state after this parse and is conditional on document content, so later parses (and rST parsed through eval-rst) behave differently depending on history"


def _copy_kinds(corpus: Corpus) -> list[tuple[str, ast.Return]]:
    """How each return of MdParserConfig.copy builds its result: 'revalidating' (dataclasses.replace / constructor: __post_init__
    runs the validators), 'shallow' (copy.copy: same field objects, no validation), 'deep', 'self', 'unknown'."""
    cp = corpus.func("config.main:MdParserConfig.copy")
    out = []
    for r in sorted([n for n in walk_local(cp.node, into_lambdas=False) if isinstance(n, ast.Return)], key=lambda n: n.lineno):
        v = r.value
        kind = "unknown"
        if v is None:
            kind = "unknown"
        elif isinstance(v, ast.Name) and v.id == "self":
            kind = "self"
        elif isinstance(v, ast.Call):
            d = dotted(v.func) or ""
            full = cp.module.resolve(d)
            a0 = unparse(v.args[0]) if v.args else ""
            if full in ("dataclasses.replace",) or d.endswith(".replace") and a0 == "self" or d == "replace" and a0 == "self":
                kind = "revalidating"
            elif d in ("type(self)", "self.__class__", "MdParserConfig", "cls") or (isinstance(v.func, ast.Call) and unparse(v.func) == "type(self)"):
                kind = "revalidating"
            elif full in ("copy.copy",) or d == "copy" and a0 == "self":
                kind = "shallow"
            elif full in ("copy.deepcopy",) or d == "deepcopy":
                kind = "deep"
        out.append((kind, r))
    return out


def _settings_config_reader(ef: Effects) -> tuple[FunctionInfo, str] | None:
    """The function that builds the docutils configuration by reading ``<prefix><field name>`` for every config field from the
    settings object, and the prefix: (function, prefix) or None."""
    def compute():
        for fi in ef.c.all_functions():
            if fi.is_lambda or fi.fq not in ef.parse_reach:
                continue
            loops = [n for n in walk_local(fi.node, into_lambdas=False) if isinstance(n, ast.For) and isinstance(n.iter, ast.Call) and (dotted(n.iter.func) or "").endswith("get_fields") and isinstance(n.target, ast.Name)]
            for lp in loops:
                for c in ast.walk(lp):
                    if isinstance(c, ast.Call) and dotted(c.func) == "getattr" and len(c.args) >= 2:
                        key = c.args[1]
                        if isinstance(key, ast.Name):
                            _, b = ef.lookup(key.id, fi)
                            vals = [x for k_, x, p_ in b or [] if k_ == "assign" and x is not None and not p_]
                            key = vals[0] if len(vals) == 1 else key
                        if isinstance(key, ast.JoinedStr) and key.values and f"{lp.target.id}.name" in unparse(key):
                            first = key.values[0]
                            prefix = None
                            if isinstance(first, ast.Constant) and isinstance(first.value, str):
                                prefix = first.value
                            elif isinstance(first, ast.FormattedValue) and isinstance(first.value, ast.Name) and first.value.id in fi.params:
                                a = fi.node.args
                                names = [x.arg for x in a.posonlyargs + a.args]
                                defaults = dict(zip(reversed(names), reversed(a.defaults)))
                                dv = defaults.get(first.value.id)
                                if isinstance(dv, ast.Constant) and isinstance(dv.value, str):
                                    prefix = dv.value
                            if prefix:
                                return fi, prefix
        return None

    return ef.c.cache("c15-settings-reader", compute)


def _config_field_names(corpus: Corpus) -> set[str]:
    ci = corpus.cls(CONFIG_CLS.replace("myst_parser.", "", 1))
    return {st.target.id for st in ci.node.body if isinstance(st, ast.AnnAssign) and isinstance(st.target, ast.Name)}


@rule("C15.R1")
def r1_effect_classification(corpus: Corpus, rep: Report, tier: str):
    rep.rule("C15.R1", "every write to a module global, class object, imported object, registry class, shared config or Sphinx env is an idempotent install, a paired restore, docname-keyed, a tabled env API, a fresh copy, or outside parse reach")
    ef = _effects(corpus)
    # table shape: MdParserConfig.copy really builds a new object (whether the copy also owns its field objects is R8's question)
    cp = corpus.func("config.main:MdParserConfig.copy")
    kinds_ = _copy_kinds(corpus)
    if not kinds_:
        rep.error("C15.R1", "MdParserConfig.copy has no return statement")
    for kind_, r_ in kinds_:
        kk = f"{cp.fq}|{short(r_, 50)}"
        if kind_ == "self":
            rep.violation("C15.R1", kk, cp.module.site(r_), "MdParserConfig.copy() returns the object itself: merge_file_level then writes the file-level values of one document into the global configuration of all documents")
        elif kind_ == "unknown":
            rep.error("C15.R1", f"{cp.module.site(r_)}: MdParserConfig.copy returns `{short(r_.value, 40) if r_.value is not None else None}`: cannot tell whether that is a new object")
        else:
            rep.ok("C15.R1", kk, cp.module.site(r_), f"a new object ({kind_})")
    seen = set()
    n_sites = 0
    for s in ef.sites():
        n_sites += 1
        roots = ef.roots(s)
        rep.saw_function(s.fi.fq)
        k = f"{s.key}|{s.how}"
        if s.how.startswith("envarg:"):
            k += "|" + s.written
        if k in seen:
            continue
        seen.add(k)
        shared = {r for r in roots if r.kind in SHARED}
        if s.how.startswith("instcall:") and not shared:
            shared = {Root("GLOBAL", "module/class-level instance")}
        if not shared:
            # configuration objects that are provably private copies are recorded as discharged obligations
            if s.how in ("setattr", "store") and (ef._is_config_type(s.container, s.fi) == "CONFIG" or any("config object under construction" in r.why for r in roots)) and all(r.kind == "FRESH" for r in roots):
                rep.ok("C15.R1", k, s.site, "config object is a private one: " + "; ".join(sorted({r.why for r in roots})))
            continue
        rep.saw_call(s.site)
        verdict, why = _judge_shared(ef, s, frozenset(shared))
        if verdict == "skip":
            continue
        if verdict == "ok":
            rep.ok("C15.R1", k, s.site, why)
        elif verdict == "assumed":
            rep.assumed("C15.R1", k, s.site, why)
        elif verdict == "error":
            rep.error("C15.R1", why)
        else:
            rep.violation("C15.R1", k, s.site, why)
    _default_role_reset(corpus, ef, rep)
    rbase = corpus.cls("mdit_to_docutils.base:DocutilsRenderer")
    unreached = [m.fq for n_, m in rbase.methods.items() if n_.startswith("render_") and m.fq not in ef.parse_reach]
    if unreached:
        rep.error("C15.R1", f"{len(unreached)} render_* methods are not reachable from the parse entries in the call graph (e.g. {unreached[0]}): the renderer's dynamic dispatch was not recognised, 'outside parse reach' cannot be trusted")
    if n_sites < 300:
        rep.error("C15.R1", f"only {n_sites} write sites enumerated in the package (expected > 300): the enumeration is broken")
    # the install obligations need the render call to exist
    for e in RENDER_ENTRIES:
        if not _render_calls(ef, corpus.func(e)):
            rep.error("C15.R1", f"{e}: no parser.render(...) call found")
    rep.expect_min("C15.R1", 25, "writes with a shared root (4 HTMLTranslator installs, roles restore, 3 option_spec, figure-md pair, 3 env.metadata, env API calls, validators, setup code)")



# ---------------------------------------------------------------------------
# R3 pure caches

CACHE_DECORATORS = {"functools.lru_cache", "functools.cache", "lru_cache", "cache", "functools.cached_property", "cached_property"}
IMMUTABLE_ANN = {"str", "int", "bool", "float", "bytes", "None"}
PURE_EXTERNAL = ("re.", "builtins.", "posixpath.", "os.path.join", "str.", "urllib.parse.")
PURE_BUILTINS = {"len", "str", "int", "bool", "float", "repr", "ord", "chr", "tuple", "frozenset", "enumerate", "zip", "range", "isinstance", "sorted", "min", "max", "sum", "any", "all", "list", "dict", "set", "reversed", "map", "filter", "iter", "next", "abs", "format", "bytes", "hash"}
IMPURE_NAMES = {"open", "print", "input", "urlopen", "getattr", "setattr", "globals", "exec", "eval", "__import__"}
MUTABLE_RETURN = ("dict", "list", "set", "Dict", "List", "Set", "InventoryType", "MutableMapping", "defaultdict")


def _is_cached(fi: FunctionInfo) -> str | None:
    for d in fi.decorators():
        full = fi.module.resolve(d)
        if full in CACHE_DECORATORS or d in CACHE_DECORATORS:
            return full
    return None


def _immutable_const(mod, name: str) -> bool:
    v = mod.const_nodes.get(name)
    if v is None:
        return False
    if isinstance(v, (ast.Constant, ast.JoinedStr)):
        return True
    if isinstance(v, ast.Tuple):
        return all(isinstance(e, ast.Constant) for e in v.elts)
    if isinstance(v, ast.Call) and (dotted(v.func) or "") in ("re.compile", "frozenset", "tuple"):
        return True
    if isinstance(v, ast.BinOp):
        return True
    return False


def _purity_problems(ef: Effects, fi: FunctionInfo, depth: int = 0) -> list[str]:
    out: list[str] = []
    mod = fi.module
    b = ef.bindings(fi)
    a = fi.node.args
    for x in a.posonlyargs + a.args + a.kwonlyargs:
        ann = unparse(x.annotation).strip("'\"") if x.annotation is not None else ""
        parts = {p.strip() for p in ann.split("|")} if ann else set()
        if depth == 0 and (not parts or not parts <= IMMUTABLE_ANN):
            out.append(f"parameter `{x.arg}: {ann or '?'}` is not an immutable scalar: the cache key may alias a mutable object or be unhashable")
    if a.vararg or a.kwarg:
        out.append("*args/**kwargs in a cached function")
    if fi.cls is not None:
        out.append("cached method: the instance becomes part of the key and is kept alive across parses")
    body_nodes = [n for st in fi.node.body for n in [st, *walk_local(st)]]
    for n in body_nodes:
        if isinstance(n, (ast.Global, ast.Nonlocal)):
            out.append(f"`{unparse(n)}`")
        if isinstance(n, ast.Name) and isinstance(n.ctx, ast.Load) and n.id not in b:
            if n.id in PURE_BUILTINS or n.id in ("True", "False", "None"):
                continue
            if n.id in IMPURE_NAMES:
                out.append(f"uses `{n.id}` (reads state outside its arguments)")
            elif n.id in mod.imports:
                continue  # judged at the call
            elif n.id in mod.const_nodes:
                if not _immutable_const(mod, n.id):
                    out.append(f"reads the mutable module global `{n.id}`")
            elif n.id in mod.functions or n.id in mod.classes:
                continue  # judged at the call
            elif n.id not in dir(__builtins__) and n.id not in __import__("builtins").__dict__:
                out.append(f"free name `{n.id}`")
        if isinstance(n, ast.Call):
            d = dotted(n.func) or ""
            head = d.split(".")[0]
            if head in b or not d:
                continue  # method of a local/parameter value (immutable scalars by the annotation check)
            targets = ef.g.resolve_call(n, fi)
            for t in targets:
                if isinstance(t, FunctionInfo):
                    if depth < 2:
                        out += [f"{t.qualname}: {p}" for p in _purity_problems(ef, t, depth + 1) if "parameter" not in p and "cached method" not in p]
                    elif t.name in ("__init__", "__post_init__", "__new__"):
                        continue  # nested construction: an allocation (the cached result is judged on the return value)
                    else:
                        raise Unsupported(f"cached function {fi.fq}: call chain deeper than 2 at {d}")
                elif isinstance(t, External):
                    nm = str(t)
                    base = nm.rsplit(".", 1)[-1]
                    if nm.startswith("pathlib.") and base[:1].isupper():
                        continue  # building a path object touches nothing
                    if base in IMPURE_NAMES or nm.startswith(("os.", "time.", "random.", "uuid.", "urllib.request.", "pathlib.", "io.", "sys.")) and not nm.startswith("os.path.join"):
                        out.append(f"calls `{nm}` (I/O or process state)")
                    elif nm.startswith(PURE_EXTERNAL) or base in PURE_BUILTINS:
                        continue
                    elif base in ("__init__", "__new__", "__post_init__") or (base[:1].isupper() and not nm.startswith(("socket.", "subprocess.", "http.", "ssl."))):
                        continue  # constructing an object is an allocation; whether the *result* may be cached is judged on the return value
                    elif base in STATEFUL_CTORS or fi.name in ("__init__", "__post_init__", "__new__"):
                        continue  # container construction / helper calls while building the object
                    else:
                        raise Unsupported(f"cached function {fi.fq}: purity of external call `{nm}` unknown")
    return out


IMMUTABLE_RESULTS = {"re.compile", "frozenset", "tuple", "str", "int", "float", "bool", "bytes", "builtins.frozenset", "builtins.tuple", "builtins.str", "fractions.Fraction", "decimal.Decimal", "pathlib.PurePosixPath", "pathlib.Path", "pathlib.PurePath"}


def _class_is_immutable(corpus: Corpus, ci) -> bool:
    for c in corpus.mro(ci):
        if any(b.rsplit(".", 1)[-1] in ("NamedTuple", "Enum", "IntEnum", "StrEnum", "Flag") for b in c.bases):
            return True
        for d in c.node.decorator_list:
            if isinstance(d, ast.Call) and (dotted(d.func) or "").endswith("dataclass") and any(k.arg == "frozen" and isinstance(k.value, ast.Constant) and k.value.value is True for k in d.keywords):
                return True
    return False


def _cached_value_mutability(ef: Effects, v: ast.expr, fi: FunctionInfo, depth: int = 0) -> str | None:
    """Reason why the value a cached function returns is a mutable object that all callers would share (None: immutable / unknown)."""
    if depth > 3:
        return None
    if isinstance(v, (ast.List, ast.Dict, ast.Set, ast.ListComp, ast.DictComp, ast.SetComp)):
        return f"returns the mutable `{short(v, 30)}` that every caller shares"
    if isinstance(v, ast.Name):
        f, binds = ef.lookup(v.id, fi)
        vals = [x for kind, x, p_ in binds or [] if kind == "assign" and x is not None and not p_]
        for x in vals:
            r = _cached_value_mutability(ef, x, f, depth + 1)
            if r:
                return r
        return None
    if isinstance(v, ast.IfExp):
        return _cached_value_mutability(ef, v.body, fi, depth + 1) or _cached_value_mutability(ef, v.orelse, fi, depth + 1)
    if isinstance(v, ast.Call):
        name = ef.callee_name(v, fi)
        if name in IMMUTABLE_RESULTS or (dotted(v.func) or "") in IMMUTABLE_RESULTS:
            return None
        ci = ef.c.find_class(name) if name else None
        if ci is None and isinstance(v.func, ast.Name):
            ci = ef.c.find_class(fi.module.resolve(v.func.id))
        if ci is not None:
            if _class_is_immutable(ef.c, ci):
                return None
            writers = sorted({m.name for c in ef.c.mro(ci) for m in c.methods.values() if m.name not in ("__init__", "__post_init__") and any(
                isinstance(n, (ast.Assign, ast.AugAssign, ast.AnnAssign)) and any(isinstance(t, ast.Attribute) and isinstance(t.value, ast.Name) and t.value.id == "self" for t0 in (n.targets if isinstance(n, ast.Assign) else [n.target]) for t, _ in _flatten(t0)) for n in walk_local(m.node)
            )})
            ext = ef.c.external_bases(ci)
            return f"returns a `{ci.name}` instance that every caller then shares: it is a stateful object (" + (f"methods {', '.join(writers[:3])} write its attributes" if writers else f"subclass of {ext[0] if ext else 'object'}") + "), so what one parse leaves in it is seen by the next"
        last = name.rsplit(".", 1)[-1] if name else ""
        if last[:1].isupper() and "." in name:
            return f"returns a `{name}` instance (a mutable library object) that every caller then shares"
        # a package function: its own returns
        for t in ef.g.flat_targets(ef.g.resolve_call(v, fi)):
            if not t.is_lambda and t.name not in ("__init__", "__post_init__"):
                for n in walk_local(t.node, into_lambdas=False):
                    if isinstance(n, ast.Return) and n.value is not None:
                        r = _cached_value_mutability(ef, n.value, t, depth + 1)
                        if r:
                            return r
    return None


@rule("C15.R3")
def r3_pure_caches(corpus: Corpus, rep: Report, tier: str):
    rep.rule("C15.R3", "functions under lru_cache/cache are pure functions of immutable scalar parameters and return an immutable value")
    ef = _effects(corpus)
    n = 0
    for fi in corpus.all_functions():
        if fi.is_lambda or fi.module.name.endswith("._docs"):
            continue
        dec = _is_cached(fi)
        if dec is None:
            continue
        n += 1
        rep.saw_function(fi.fq)
        k = f"{fi.fq}|{dec}"
        problems = _purity_problems(ef, fi)
        ret = unparse(fi.node.returns) if fi.node.returns is not None else ""
        if any(ret.startswith(m) or f"[{m}" in ret or ret == m for m in MUTABLE_RETURN):
            problems.append(f"returns a mutable `{ret}` that every caller shares")
        for r_ in [n for n in walk_local(fi.node, into_lambdas=False) if isinstance(n, ast.Return) and n.value is not None]:
            verdict = _cached_value_mutability(ef, r_.value, fi)
            if verdict:
                problems.append(verdict)
        if problems:
            rep.violation("C15.R3", k, fi.site(), f"{fi.qualname} is cached for the life of the process but " + "; ".join(sorted(set(problems))[:4]))
        else:
            rep.ok("C15.R3", k, fi.site(), "parameters immutable scalars; reads only parameters, locals, immutable module constants and pure library functions")
    # module-level dict/list used as a hand-made cache would be a GLOBAL write and is R1's business
    rep.expect_min("C15.R3", 1, "_create_regex")


# ---------------------------------------------------------------------------
# R4 freshness of parser + renderer


def _derives_from_ctor(ef: Effects, e: ast.expr, fi: FunctionInfo, ctor: str, depth: int = 0) -> bool:
    """``e`` is ``Ctor(...)`` possibly followed by chained method calls, or a local every definition of which is."""
    if depth > 6:
        return False
    if isinstance(e, ast.Call):
        if isinstance(e.func, ast.Name) or (isinstance(e.func, ast.Attribute) and dotted(e.func) and not isinstance(e.func.value, ast.Call) and fi.module.resolve(dotted(e.func)) == ctor):
            return fi.module.resolve(dotted(e.func) or "") == ctor
        if isinstance(e.func, ast.Attribute):
            return _derives_from_ctor(ef, e.func.value, fi, ctor, depth)
        return False
    if isinstance(e, ast.Name):
        f, binds = ef.lookup(e.id, fi)
        if not binds:
            return False
        vals = [v for kind, v, p in binds if kind == "assign" and not p]
        if len(vals) != len(binds):
            return False
        # rebinding of the form  md = md.use(...)  keeps the origin
        return all(_derives_from_ctor(ef, v, f, ctor, depth + 1) or (isinstance(v, ast.Call) and isinstance(v.func, ast.Attribute) and _root_name(v.func.value) == e.id) for v in vals) and any(
            _derives_from_ctor(ef, v, f, ctor, depth + 1) for v in vals
        )
    return False


def _root_name(e: ast.expr) -> str | None:
    while isinstance(e, (ast.Attribute, ast.Call, ast.Subscript)):
        e = e.func if isinstance(e, ast.Call) else e.value
    return e.id if isinstance(e, ast.Name) else None


def _escapes(fi: FunctionInfo, name: str) -> str | None:
    """How the local ``name`` is kept beyond the call (stored in an attribute/subscript/global, returned, yielded)."""
    for n in walk_local(fi.node, into_lambdas=False):
        if isinstance(n, ast.Global) and name in n.names:
            return "declared global"
        if isinstance(n, (ast.Return, ast.Yield)) and n.value is not None and any(isinstance(x, ast.Name) and x.id == name for x in ast.walk(n.value)):
            return "returned"
        if isinstance(n, (ast.Assign, ast.AnnAssign)) and n.value is not None:
            tg = n.targets if isinstance(n, ast.Assign) else [n.target]
            uses = isinstance(n.value, ast.Name) and n.value.id == name
            if uses and any(isinstance(t, (ast.Attribute, ast.Subscript)) for t in tg):
                return f"stored by `{short(n, 60)}`"
            if any(isinstance(t, (ast.Attribute, ast.Subscript)) for t in tg) and any(isinstance(t2, ast.Name) and t2.id == name for t2 in tg):
                return f"stored by `{short(n, 60)}`"
        if isinstance(n, ast.Call) and dotted(n.func) == "setattr" and len(n.args) > 2 and isinstance(n.args[2], ast.Name) and n.args[2].id == name:
            return f"stored by `{short(n, 60)}`"
    return None


@rule("C15.R4")
def r4_freshness(corpus: Corpus, rep: Report, tier: str):
    rep.rule("C15.R4", "each parse builds a new MarkdownIt + renderer (create_md_parser constructs on every path) and keeps it in a local only; no parser/renderer instance lives in a module or class attribute")
    ef = _effects(corpus)
    g = ef.g
    cmp_ = corpus.func("parsers.mdit:create_md_parser")
    ctor = cmp_.module.resolve("MarkdownIt")
    if not ctor.startswith("markdown_it"):
        raise AnchorMissing("parsers/mdit.py no longer imports MarkdownIt from markdown_it")
    # (a) create_md_parser returns a newly constructed MarkdownIt on every path
    rets = [n for n in walk_local(cmp_.node, into_lambdas=False) if isinstance(n, ast.Return)]
    if not rets:
        rep.error("C15.R4", "create_md_parser has no return statement")
    cfg_cmp = get_cfg(cmp_)
    for r in rets:
        facts_ = sorted(("" if pol else "not ") + short(t, 40) for t, pol in cfg_cmp.guards(r))
        k = f"{cmp_.fq}|{short(r, 40)} under [{', '.join(facts_)}]"
        if r.value is not None and _derives_from_ctor(ef, r.value, cmp_, ctor):
            rep.ok("C15.R4", k, cmp_.module.site(r), f"value constructed by {ctor}(...) inside the call")
        else:
            rep.violation("C15.R4", k, cmp_.module.site(r), f"create_md_parser returns `{short(r.value, 40) if r.value is not None else None}` which is not (only) a MarkdownIt constructed inside this call: parser and renderer state (md.options['document'], renderer attributes, rule enable/disable) would be shared between parses")
    # the renderer is handed over as a class, instantiated by MarkdownIt.__init__
    for n in walk_local(cmp_.node):
        if isinstance(n, ast.Call) and cmp_.module.resolve(dotted(n.func) or "") == ctor:
            kw = [x for x in n.keywords if x.arg == "renderer_cls"]
            k = f"{cmp_.fq}|{short(n, 60)}"
            if kw and isinstance(kw[0].value, ast.Name) and kw[0].value.id in cmp_.params:
                rep.ok("C15.R4", k, cmp_.module.site(n), "renderer class passed through: MarkdownIt instantiates it per parser")
            else:
                rep.violation("C15.R4", k, cmp_.module.site(n), "MarkdownIt is not given the caller's renderer class via renderer_cls=: the renderer is not created per parser")
    # (b) the object each parse method renders with is constructed during that call
    def is_class_arg(rcls: ast.expr | None, fi: FunctionInfo, depth: int = 0):
        """True / False / None(unknown) - the renderer argument is a class (possibly forwarded through a parameter)."""
        if rcls is None:
            return False
        if isinstance(rcls, ast.Name) and rcls.id in fi.params and depth < 3:
            sites_ = g.callers().get(fi.fq, [])
            if not sites_:
                return None
            idx = fi.params.index(rcls.id) - (1 if (fi.cls is not None and fi.params[0] in ("self", "cls")) else 0)
            res = []
            for cfi, ccall in sites_:
                arg = ccall.args[idx] if 0 <= idx < len(ccall.args) else None
                for kw in ccall.keywords:
                    if kw.arg == rcls.id:
                        arg = kw.value
                res.append(is_class_arg(arg, cfi, depth + 1))
            return False if any(r is False for r in res) else (None if any(r is None for r in res) else True)
        d = dotted(rcls) or ""
        return isinstance(rcls, (ast.Name, ast.Attribute)) and (corpus.find_class(fi.module.resolve(d)) is not None or d.rsplit(".", 1)[-1][:1].isupper())

    def origin(e: ast.expr, fi: FunctionInfo, depth: int = 0) -> list[tuple[bool | None, str, str]]:
        """Where the parser value comes from: [(fresh?, site, why)]; fresh? None = not understood."""
        site = fi.module.site(e)
        if depth > 5:
            return [(None, site, "call chain too deep")]
        if isinstance(e, ast.Call):
            if _derives_from_ctor(ef, e, fi, ctor):
                return [(True, site, f"{ctor}(...) constructed here")]
            targets = [t for t in g.flat_targets(g.resolve_call(e, fi)) if not t.is_lambda]
            if targets and len(targets) <= 3:
                out_: list = []
                for t in targets:
                    rs = [n for n in walk_local(t.node, into_lambdas=False) if isinstance(n, ast.Return) and n.value is not None]
                    if not rs:
                        out_.append((None, t.site(), f"{t.qualname} returns nothing"))
                    for r in rs:
                        out_ += origin(r.value, t, depth + 1)
                return out_
            return [(None, site, f"result of `{short(e, 40)}`")]
        if isinstance(e, ast.Name):
            f, binds = ef.lookup(e.id, fi)
            out_ = []
            for kind, v, path in binds or []:
                if kind == "assign" and v is not None and not path:
                    if isinstance(v, ast.Call) and isinstance(v.func, ast.Attribute) and _root_name(v.func.value) == e.id:
                        continue  # md = md.use(...)
                    out_ += origin(v, f, depth + 1)
                elif kind == "param":
                    idx = f.params.index(e.id) - (1 if (f.cls is not None and f.params[0] in ("self", "cls")) else 0)
                    for cfi, ccall in g.callers().get(f.fq, []):
                        arg = ccall.args[idx] if 0 <= idx < len(ccall.args) else None
                        for kw in ccall.keywords:
                            if kw.arg == e.id:
                                arg = kw.value
                        if arg is not None:
                            out_ += origin(arg, cfi, depth + 1)
                else:
                    out_.append((None, site, f"`{e.id}` bound by {kind}"))
            if not binds:
                m_ = fi.module
                if e.id in m_.const_nodes:
                    return [(False, site, f"the module-level object `{m_.name}.{e.id}`")]
                return [(None, site, f"name `{e.id}`")]
            return out_ or [(None, site, f"`{e.id}` has no understood definition")]
        if isinstance(e, (ast.Subscript, ast.Attribute)):
            return [(False, site, f"read from `{short(e, 40)}`: an instance that was stored earlier")]
        if isinstance(e, ast.IfExp):
            return origin(e.body, fi, depth + 1) + origin(e.orelse, fi, depth + 1)
        if isinstance(e, ast.Call) or isinstance(e, ast.NamedExpr):
            return [(None, site, "expression not understood")]
        return [(None, site, f"{type(e).__name__} expression")]

    for efq in RENDER_ENTRIES:
        fi = corpus.func(efq)
        k = f"{fi.fq}|parser used for the render is built in this call"
        recvs: list[tuple[ast.expr, FunctionInfo]] = []
        for call in _render_calls(ef, fi):
            if isinstance(call.func, ast.Attribute) and call.func.attr == "render":
                recvs.append((call.func.value, fi))
            else:  # a helper that renders: the parser is one of the arguments, or is built inside the helper
                for t in g.flat_targets(g.resolve_call(call, fi)):
                    for c2, _tg in g.callees(t):
                        if isinstance(c2.func, ast.Attribute) and c2.func.attr == "render" and ef.special_kind(c2, t) == MD_RENDER:
                            recvs.append((c2.func.value, t))
        if not recvs:
            rep.error("C15.R4", f"{fi.fq}: the receiver of the render call was not found")
            continue
        res = [x for r_, f_ in recvs for x in origin(r_, f_)]
        bad = [x for x in res if x[0] is False]
        unk = [x for x in res if x[0] is None]
        if bad:
            rep.violation("C15.R4", k, bad[0][1], f"{fi.qualname} renders with a parser that is {bad[0][2]}: parser and renderer state (md.options['document'], renderer attributes, enabled rules, plugin arguments baked in at construction) is shared between parses")
        elif unk or not res:
            rep.error("C15.R4", f"{fi.fq}: origin of the parser not understood ({unk[0][2] if unk else 'no definition'} at {unk[0][1] if unk else fi.site()})")
        else:
            rep.ok("C15.R4", k, res[0][1], f"{len(res)} origin(s), all constructed inside the call")
    # every caller of create_md_parser keeps the new parser in a local and passes a renderer *class*
    callers = g.callers().get(cmp_.fq, [])
    for fi, call in callers:
        k = f"{fi.fq}|{short(call, 60)}"
        site = fi.module.site(call)
        p = parent(call)
        rcls = call.args[1] if len(call.args) > 1 else None
        for kw in call.keywords:
            if kw.arg == "renderer":
                rcls = kw.value
        isc = is_class_arg(rcls, fi)
        if isc is False:
            rep.violation("C15.R4", k, site, f"the renderer argument `{short(rcls, 30) if rcls is not None else None}` is not a class name: a renderer instance would be shared")
            continue
        if isc is None:
            rep.error("C15.R4", f"{site}: cannot tell whether the renderer argument `{short(rcls, 30)}` is a class")
            continue
        if isinstance(p, (ast.Assign, ast.AnnAssign)) and all(isinstance(t, ast.Name) for t in (p.targets if isinstance(p, ast.Assign) else [p.target])):
            name = (p.targets[0] if isinstance(p, ast.Assign) else p.target).id
            esc = _escapes(fi, name)
            if esc and esc != "returned" and fi.fq in ef.parse_reach:
                rep.violation("C15.R4", k, site, f"the parser created for this parse is {esc}: it outlives the call and the next parse may reuse it")
            else:
                rep.ok("C15.R4", k, site, f"kept in the local `{name}` only" + (" and returned to the caller (judged there)" if esc == "returned" else ""))
        elif isinstance(p, ast.Expr) or (isinstance(p, ast.Attribute) and isinstance(parent(p), ast.Call)):
            rep.ok("C15.R4", k, site, "used at once, not kept")
        elif isinstance(p, ast.Return):
            rep.ok("C15.R4", k, site, f"returned by the helper {fi.qualname}: judged at the parse methods")
        else:
            rep.violation("C15.R4", k, site, f"the new parser is bound by `{short(p, 60)}`, not by a plain local variable: it can outlive the parse")
    # (c) no instance at module/class level
    for m in corpus.modules.values():
        if m.name.endswith("._docs"):
            continue
        scopes = [(m.tree.body, m.name)] + [(ci.node.body, ci.fq) for ci in m.classes.values()]
        for body, where in scopes:
            for st in body:
                if isinstance(st, (ast.Assign, ast.AnnAssign)) and st.value is not None:
                    for c in ast.walk(st.value):
                        if isinstance(c, ast.Lambda):
                            break
                        if isinstance(c, ast.Call):
                            full = m.resolve(dotted(c.func) or "")
                            ci = corpus.find_class(full)
                            is_renderer = ci is not None and any(x.name == "DocutilsRenderer" for x in corpus.mro(ci))
                            if full == ctor or full.endswith("parsers.mdit.create_md_parser") or is_renderer:
                                rep.violation("C15.R4", f"{where}|{short(st, 60)}", m.site(st), f"a parser/renderer instance is created once at import time and shared by every parse: `{short(st, 60)}`")
    rep.expect_min("C15.R4", 6, "3 returns + >=1 MarkdownIt constructions in create_md_parser, 2 parse callers")


# ---------------------------------------------------------------------------
# R5 reset completeness

# attributes a render writes that setup_render need not reset (none today: the lazily filled `_inventories` cache was such an
# entry until a reused renderer was shown to serve the first render's inventories/config to every later render)
RESET_EXCEPTIONS: dict[str, str] = {}


def _self_attr_of(written: str) -> str | None:
    if not written.startswith("self."):
        return None
    rest = written[5:]
    for i, ch in enumerate(rest):
        if not (ch.isalnum() or ch == "_"):
            return rest[:i]
    return rest


@rule("C15.R5")
def r5_reset_completeness(corpus: Corpus, rep: Report, tier: str):
    rep.rule("C15.R5", "every renderer attribute written during a render (by any method other than __init__/setup_render) is stored unconditionally by setup_render")
    ef = _effects(corpus)
    base = corpus.cls("mdit_to_docutils.base:DocutilsRenderer")
    classes = [base] + corpus.subclasses(base)
    cls_fqs = {c.fq for c in classes}
    setup = corpus.func("mdit_to_docutils.base:DocutilsRenderer.setup_render")
    # what setup_render stores on every path
    reset: dict[str, ast.stmt] = {}
    def unconditional_self_stores(m: FunctionInfo, depth: int = 0) -> dict[str, ast.stmt]:
        out: dict[str, ast.stmt] = {}
        cfg = get_cfg(m)
        for n in walk_local(m.node, into_lambdas=False):
            tg = n.targets if isinstance(n, ast.Assign) else [n.target] if isinstance(n, ast.AnnAssign) and n.value is not None else []
            for t0 in tg:
                for t, _ in _flatten(t0):
                    if isinstance(t, ast.Attribute) and isinstance(t.value, ast.Name) and t.value.id == "self" and cfg.postdominates(cfg.stmt_of(n), "ENTRY"):
                        out[t.attr] = n
            # helper methods called unconditionally: self._reset(...)
            if depth < 2 and isinstance(n, ast.Expr) and isinstance(n.value, ast.Call) and (dotted(n.value.func) or "").startswith("self.") and cfg.postdominates(n, "ENTRY"):
                for t in ef.g.flat_targets(ef.g.resolve_call(n.value, m)):
                    if t.cls is not None and t.cls.fq in cls_fqs and not t.is_lambda:
                        for a_, st_ in unconditional_self_stores(t, depth + 1).items():
                            out.setdefault(a_, n)
        return out

    for impl in corpus.method_impls(base, "setup_render"):
        if impl.fq == setup.fq:
            reset.update(unconditional_self_stores(impl))
        if impl.fq != setup.fq and not any(isinstance(c, ast.Call) and (dotted(c.func) or "") == "super().setup_render" for c in walk_local(impl.node)):
            rep.violation("C15.R5", f"{impl.fq}|does not call super().setup_render", impl.site(), "an overriding setup_render that skips the base class leaves the base attributes from the previous render")
    if len(reset) < 8:
        rep.error("C15.R5", f"setup_render stores only {len(reset)} attributes unconditionally (expected >= 8): shape not understood")
    # render() must call setup_render before anything else touches the state
    rnd = corpus.func("mdit_to_docutils.base:DocutilsRenderer.render")
    cfg = get_cfg(rnd)
    calls = [c for c in walk_local(rnd.node) if isinstance(c, ast.Call)]
    su = [c for c in calls if (dotted(c.func) or "") == "self.setup_render"]
    k = f"{rnd.fq}|setup_render first"
    if not su:
        rep.violation("C15.R5", k, rnd.site(), "render() no longer calls self.setup_render: nothing resets the per-render attributes")
    else:
        st = cfg.stmt_of(su[0])
        others = [c for c in calls if c is not su[0] and (dotted(c.func) or "").startswith("self.") and not cfg.dominates(st, cfg.stmt_of(c))]
        if others or not cfg.postdominates(st, "ENTRY"):
            rep.violation("C15.R5", k, rnd.module.site(su[0]), f"render() uses the renderer (`{short(others[0], 40) if others else 'conditional'}`) before/without setup_render")
        else:
            rep.ok("C15.R5", k, rnd.module.site(su[0]), "setup_render dominates every other self.* call of render()")
    written: dict[str, list[Site]] = {}
    for s in ef.sites():
        so = ef.self_owner(s.fi)
        if so is None or so.cls.fq not in cls_fqs or s.how.startswith(("envcall", "envarg")):
            continue
        if so.name in ("__init__", "setup_render"):
            continue
        attr = _self_attr_of(s.written)
        if attr is None:
            continue
        cls_prop = corpus.lookup_method(so.cls, attr)
        if cls_prop is not None and "property" in cls_prop.decorators():
            continue  # a property (sphinx_env): not instance state
        written.setdefault(attr, []).append(s)
    for attr, ss in sorted(written.items()):
        s0 = sorted(ss, key=lambda x: (x.fi.fq, x.node.lineno))[0]
        k = f"DocutilsRenderer.{attr}"
        fns = sorted({x.fi.qualname for x in ss})
        if attr in reset:
            rep.ok("C15.R5", k, setup.module.site(reset[attr]), f"written by {', '.join(fns[:4])}{'...' if len(fns) > 4 else ''}; reset by setup_render")
        elif attr in RESET_EXCEPTIONS:
            # shape: direct stores are `= None` in __init__ or under `self.<attr> is None`
            okshape = True
            for x in [y for y in ef.sites() if y.written == f"self.{attr}" and ef.self_owner(y.fi) is not None and ef.self_owner(y.fi).cls.fq in cls_fqs]:
                so = ef.self_owner(x.fi)
                if so.name == "__init__":
                    okshape &= isinstance(x.value, ast.Constant) and x.value.value is None
                else:
                    gs = get_cfg(x.fi).guards(get_cfg(x.fi).stmt_of(x.node))
                    okshape &= any(pol and unparse(t) == f"self.{attr} is None" for t, pol in gs)
            if okshape:
                rep.assumed("C15.R5", k, s0.site, RESET_EXCEPTIONS[attr])
            else:
                rep.violation("C15.R5", k, s0.site, f"self.{attr} is tabled as a lazily filled per-renderer cache but is now stored outside `__init__`/`if self.{attr} is None`")
        else:
            rep.violation("C15.R5", k, s0.site, f"self.{attr} is written by {', '.join(fns[:3])} but setup_render does not store it unconditionally: a second render with the same renderer (md.render called twice, or nested documents) starts from the previous document's value")
    rep.expect_min("C15.R5", 7, "renderer attributes written during a render (current_node, document, md_env, reporter, _level_to_section, _heading_offset, _heading_slugs, _inventories ...)")


# ---------------------------------------------------------------------------
# R7 per-call nondeterminism

NONDET_PREFIXES = ("uuid.", "random.", "secrets.", "time.", "os.urandom", "os.getpid", "datetime.datetime.now", "datetime.datetime.today", "datetime.date.today", "datetime.datetime.utcnow", "tempfile.")
NONDET_BUILTINS = {"id"}


def _resolved_callee(ef: Effects, call: ast.Call, fi: FunctionInfo) -> str:
    return ef.callee_name(call, fi)


def _is_sink_call(ef: Effects, call: ast.Call, fi: FunctionInfo) -> str | None:
    name = _resolved_callee(ef, call, fi)
    last = name.rsplit(".", 1)[-1]
    if name.startswith(("docutils.nodes.", "sphinx.addnodes.")):
        return f"node constructor / id helper {name}"
    if last in ("create_warning", "log_warning") or (last in ("warning", "error", "severe", "info", "system_message") and "reporter" in name):
        return f"message {name}"
    if last.startswith("note_") or last in ("set_id", "make_id"):
        return f"registration {name}"
    return None


class Taint:
    def __init__(self, ef: Effects):
        self.ef = ef
        self.hits: list[tuple[FunctionInfo, ast.AST, str]] = []

    def run(self, fi: FunctionInfo, src: ast.expr, depth: int = 0, seen: frozenset = frozenset()) -> None:
        """Follow the value of ``src`` inside ``fi`` (flow-insensitive), into callers through returns."""
        if depth > 4 or (fi.fq, unparse(src)) in seen:
            return
        seen = seen | {(fi.fq, unparse(src))}
        tainted_names: set[str] = set()
        work: list[ast.AST] = [src]
        returned = False
        done: set[int] = set()
        while work:
            e = work.pop()
            if id(e) in done:
                continue
            done.add(id(e))
            p = parent(e)
            while p is not None:
                if isinstance(p, (ast.Compare,)) or (isinstance(p, (ast.If, ast.While, ast.IfExp)) and p.test is e):
                    break  # only a truth value leaves
                if isinstance(p, ast.Call) and e is not p.func:
                    sink = _is_sink_call(self.ef, p, fi)
                    if sink:
                        self.hits.append((fi, p, sink))
                        break
                    d = dotted(p.func) or ""
                    if d in ("str", "repr", "format", "int", "hex") or (isinstance(p.func, ast.Attribute) and p.func.attr in ("format", "join", "hex", "replace", "lower", "upper", "strip")):
                        e, p = p, parent(p)
                        continue
                    # argument of a package function: follow the parameter
                    for t in self.ef.g.flat_targets(self.ef.g.resolve_call(p, fi)):
                        if t.is_lambda:
                            continue
                        shift = 1 if (t.cls is not None and t.params and t.params[0] in ("self", "cls")) else 0
                        pname = None
                        if e in p.args and p.args.index(e) + shift < len(t.params):
                            pname = t.params[p.args.index(e) + shift]
                        for kw in p.keywords:
                            if kw.value is e and kw.arg in t.params:
                                pname = kw.arg
                        if pname:
                            for n in walk_local(t.node, into_lambdas=False):
                                if isinstance(n, ast.Name) and n.id == pname and isinstance(n.ctx, ast.Load):
                                    self.run(t, n, depth + 1, seen)
                    break
                if isinstance(p, ast.keyword):
                    e, p = p, parent(p)
                    if isinstance(p, ast.Call):
                        sink = _is_sink_call(self.ef, p, fi)
                        if sink:
                            self.hits.append((fi, p, sink))
                        break
                    continue
                if isinstance(p, ast.Return):
                    returned = True
                    break
                if isinstance(p, (ast.Assign, ast.AnnAssign, ast.AugAssign)):
                    tg = p.targets if isinstance(p, ast.Assign) else [p.target]
                    if any(e is t or e in list(ast.walk(t)) for t in tg):
                        break  # e is (part of) the target itself
                    for t in tg:
                        for x, _ in _flatten(t):
                            if isinstance(x, ast.Name):
                                if x.id not in tainted_names:
                                    tainted_names.add(x.id)
                                    for n in walk_local(fi.node, into_lambdas=False):
                                        if isinstance(n, ast.Name) and n.id == x.id and isinstance(n.ctx, ast.Load):
                                            work.append(n)
                            elif isinstance(x, (ast.Subscript, ast.Attribute)):
                                self.hits.append((fi, p, f"stored into `{short(x, 40)}`"))
                    break
                if isinstance(p, ast.stmt):
                    break
                e, p = p, parent(p)
        if returned:
            for cfi, call in self.ef.g.callers().get(fi.fq, []):
                self.run(cfi, call, depth + 1, seen)


@rule("C15.R7")
def r7_nondeterminism(corpus: Corpus, rep: Report, tier: str):
    rep.rule("C15.R7", "no value of uuid/random/secrets/time/os.urandom/id() reaches a node attribute, an id or a message in code reachable from a parse")
    ef = _effects(corpus)
    n_calls = 0
    for fi in corpus.all_functions():
        if fi.fq not in ef.parse_reach:
            continue
        nodes_ = list(walk_local(fi.node, into_lambdas=False))
        for n in nodes_:
            if not isinstance(n, ast.Call):
                continue
            n_calls += 1
            name = _resolved_callee(ef, n, fi)
            d = dotted(n.func) or ""
            is_src = name.startswith(NONDET_PREFIXES) or (d in NONDET_BUILTINS and ef.lookup(d, fi)[1] is None and d not in fi.module.functions)
            if not is_src:
                continue
            rep.saw_call(fi.module.site(n))
            t = Taint(ef)
            t.run(fi, n)
            k = f"{fi.fq}|{short(n, 50)}"
            if t.hits:
                hfi, hnode, how = t.hits[0]
                rep.violation(
                    "C15.R7",
                    k,
                    fi.module.site(n),
                    f"`{short(n, 40)}` differs on every call and reaches {how} at {hfi.module.site(hnode)} (`{short(hnode, 60)}`): the doctree of the same document differs between two parses",
                    [f"{x.fq} {x.module.site(nd)} {hw}" for x, nd, hw in t.hits[:6]],
                )
            else:
                rep.ok("C15.R7", k, fi.module.site(n), "value does not reach a node, id or message")
    if n_calls < 500:
        rep.error("C15.R7", f"only {n_calls} calls scanned in parse reach")
    if not any(i.rule == "C15.R7" for i in rep.items):
        rep.ok("C15.R7", "no nondeterminism source in parse reach", "myst_parser", f"{n_calls} calls scanned: none resolves to uuid/random/secrets/time/os.urandom/id()")

def _is_default_role_place(e: ast.expr) -> bool:
    return isinstance(e, ast.Subscript) and isinstance(e.slice, ast.Constant) and e.slice.value == "" and (dotted(e.value) or "").endswith("_roles")


def _default_role_reset(corpus: Corpus, ef: Effects, rep: Report) -> None:
    """Foreign write compensated by the sibling: docutils' ``default-role`` directive (reachable through
    run_directive) stores ``roles._roles['']``; docutils' own rST ``Parser.parse`` removes that entry after every
    parse, Sphinx unregisters it around every read.  The docutils front end of MyST must do the same."""
    sib = corpus.sibling("docutils/parsers/rst/__init__.py")
    rep.saw_sibling(sib.rel)
    sp = sib.functions.get("Parser.parse")
    if sp is None:
        raise AnchorMissing("docutils.parsers.rst.Parser.parse not found")
    sib_resets = [n for n in walk_local(sp.node) if isinstance(n, ast.Delete) and any(_is_default_role_place(t) for t in n.targets)]
    dr = corpus.sibling("docutils/parsers/rst/directives/misc.py").functions.get("DefaultRole.run")
    dr_sets = dr is not None and any(isinstance(n, ast.Assign) and _is_default_role_place(n.targets[0]) for n in walk_local(dr.node))
    if not sib_resets or not dr_sets:
        rep.error("C15.R1", "oracle moved: docutils' rST Parser.parse no longer deletes roles._roles[''] after a parse, or DefaultRole.run no longer sets it")
        return
    fi = corpus.func(RENDER_ENTRIES[0])
    k = f"{fi.fq}|roles._roles[''] reset after render"
    rcs = _render_calls(ef, fi)
    if not rcs:
        return
    cfg = get_cfg(fi)
    rst = cfg.stmt_of(rcs[0])
    def is_reset(n: ast.AST, f: FunctionInfo) -> bool:
        if isinstance(n, ast.Delete) and any(_is_default_role_place(t) for t in n.targets):
            return True
        if isinstance(n, ast.Call) and isinstance(n.func, ast.Attribute) and n.func.attr == "pop" and (dotted(n.func.value) or "").endswith("_roles") and n.args and isinstance(n.args[0], ast.Constant) and n.args[0].value == "":
            return True
        if isinstance(n, ast.Call) and (dotted(n.func) or "").rsplit(".", 1)[-1] in ("unregister_role",):
            return True
        if isinstance(n, ast.Assign) and _is_default_role_place(n.targets[0]) and _restore_info(f, n) is not None:
            return True
        return False

    def unconditional_in(n: ast.AST, block_owner: ast.AST, block: list) -> bool:
        """``n`` is a statement of ``block`` itself, or sits only under `if ... _roles ...` idempotence tests inside it."""
        child = n
        for a_ in ancestors(n):
            if a_ is block_owner:
                return any(child is s_ for s_ in block)
            if isinstance(a_, ast.If) and "_roles" in unparse(a_.test) and not (isinstance(a_.test, ast.Name)):
                child = a_
                continue
            if isinstance(a_, (ast.stmt, ast.ExceptHandler)) and not isinstance(child, ast.stmt):
                child = a_
                continue
            if isinstance(a_, ast.stmt):
                return False
            child = a_
        return False

    def runs_whenever(n: ast.AST, f: FunctionInfo, anchor) -> bool:
        """In the parse method (anchor = the render statement): ``n`` sits, unconditionally, in the `finally` of a try whose
        body holds the render - a render halted by a SEVERE system message or any other exception must not skip the reset.
        In a helper (anchor = ENTRY): ``n`` executes on every normal path (modulo an `if '' in roles._roles` guard)."""
        c_ = get_cfg(f)
        st_ = c_.stmt_of(n)
        if anchor == "ENTRY":
            if c_.postdominates(st_, anchor):
                return True
            return any(c_.postdominates(g_, anchor) for g_ in c_.dom().get(st_, set()) if isinstance(g_, ast.If) and "_roles" in unparse(g_.test))
        tr_ = _in_finally(n)
        while tr_ is not None:
            covers = any(anchor is b_ or any(anchor is x for x in ast.walk(b_)) for b_ in tr_.body)
            if covers and unconditional_in(st_, tr_, tr_.finalbody):
                return True
            tr_ = _in_finally(tr_)
        return False

    good = []
    for n in walk_local(fi.node, into_lambdas=False):
        if is_reset(n, fi) and runs_whenever(n, fi, rst):
            good.append(n)
        elif isinstance(n, ast.Call):
            # one level of helper: a package function that performs the reset on every path
            for t in ef.g.flat_targets(ef.g.resolve_call(n, fi)):
                if t.is_lambda or t.fq == fi.fq:
                    continue
                if any(is_reset(m, t) and runs_whenever(m, t, "ENTRY") for m in walk_local(t.node, into_lambdas=False)) and runs_whenever(n, fi, rst):
                    good.append(n)
    if good:
        rep.ok("C15.R1", k, fi.module.site(good[0]), "the default role installed by a `default-role` directive is removed/restored after the render, as docutils' rST parser does")
    else:
        rep.violation(
            "C15.R1",
            k,
            fi.module.site(rcs[0]),
            "docutils' `default-role` directive (run through run_directive) stores roles._roles['']; the reset must sit, unconditionally, in the `finally` of a try around the render "
            "(a render halted by a SEVERE system message or any other exception must not skip it). docutils' own rST Parser.parse deletes that entry after every parse "
            f"({sib.rel}:{sib_resets[0].lineno}) and Sphinx unregisters it around every read, but the MyST docutils Parser.parse never does: the default role chosen in one document "
            "is still active for `eval-rst` content of every later document parsed in the process (MockRSTParser even restores the leaked value)",
        )



# ---------------------------------------------------------------------------
# R8 per-instance ownership of configuration fields that are mutated in place


def _field_validators(corpus: Corpus) -> dict[str, list[ast.expr]]:
    """field name -> validator expressions from ``dc.field(metadata={"validator": ...})`` of MdParserConfig."""
    ci = corpus.cls(CONFIG_CLS.replace("myst_parser.", "", 1))
    out: dict[str, list[ast.expr]] = {}
    for st in ci.node.body:
        if isinstance(st, ast.AnnAssign) and isinstance(st.target, ast.Name) and isinstance(st.value, ast.Call):
            for kw in st.value.keywords:
                if kw.arg == "metadata" and isinstance(kw.value, ast.Dict):
                    for k_, v_ in zip(kw.value.keys, kw.value.values):
                        if isinstance(k_, ast.Constant) and k_.value == "validator":
                            out[st.target.id] = list(v_.elts) if isinstance(v_, (ast.List, ast.Tuple)) else [v_]
    return out


def _reaching_def_value(fi: FunctionInfo, v: ast.expr, at: ast.AST) -> ast.expr:
    """Flow-sensitive refinement for a plain name: when one assignment `name = EXPR` dominates the use and every other
    assignment to the name comes textually before it (a re-bound parameter: `value = set(value)`), the use sees EXPR."""
    if not isinstance(v, ast.Name) or fi.is_lambda:
        return v
    try:
        cfg = get_cfg(fi)
        use = cfg.stmt_of(at)
    except Exception:
        return v
    defs = [d for d in _name_defs(fi, v.id) if isinstance(d, (ast.Assign, ast.AnnAssign)) and getattr(d, "value", None) is not None]
    alld = _name_defs(fi, v.id)
    if not defs or len(defs) != len(alld):
        return v
    dom = [d for d in defs if d is not use and cfg.dominates(cfg.stmt_of(d), use) and d.lineno < use.lineno]
    if not dom:
        return v
    last = max(dom, key=lambda d: d.lineno)
    if any(d.lineno > last.lineno for d in defs if d is not last):
        return v
    if cfg.loops.get(last) is not None or cfg.loops.get(use) is not None:
        return v
    tg = last.targets[0] if isinstance(last, ast.Assign) and len(last.targets) == 1 else getattr(last, "target", None)
    if not isinstance(tg, ast.Name):
        return v
    return last.value


def _fresh_at(ef: Effects, fi: FunctionInfo, v: ast.expr, at: ast.AST, depth: int = 0) -> bool:
    """``v`` evaluated at statement ``at`` is a newly built object on every path (names are resolved flow-sensitively)."""
    if depth > 4:
        return False
    if isinstance(v, ast.Name):
        rv = _reaching_def_value(fi, v, at)
        if rv is not v:
            d_at = next((d for d in _name_defs(fi, v.id) if getattr(d, "value", None) is rv), at)
            return _fresh_at(ef, fi, rv, d_at, depth + 1)
    if isinstance(v, ast.IfExp):
        return _fresh_at(ef, fi, v.body, at, depth + 1) and _fresh_at(ef, fi, v.orelse, at, depth + 1)
    if isinstance(v, ast.BoolOp):
        return all(_fresh_at(ef, fi, x, at, depth + 1) for x in v.values)
    roots_ = ef.classify(v, fi)
    return bool(roots_) and all(r.kind == "FRESH" for r in roots_)


def _shallow_config_copies(ef: Effects) -> list[ast.Call]:
    """copy.copy(<config>) anywhere in parse reach: a second MdParserConfig whose fields are the very objects of the first."""
    def compute():
        out = []
        for fi in ef.c.all_functions():
            if fi.fq not in ef.parse_reach or (fi.cls is not None and fi.cls.fq == ef.config_cls.fq):
                continue
            for c in walk_local(fi.node, into_lambdas=False):
                if isinstance(c, ast.Call) and len(c.args) == 1 and not c.keywords and ef.callee_name(c, fi) in ("copy.copy",):
                    if ef._is_config_type(c.args[0], fi) == "CONFIG":  # the object itself, not one of its field values
                        out.append(c)
        return out

    return ef.c.cache("c15-shallow-config-copies", compute)


@rule("C15.R8")
def r8_field_ownership(corpus: Corpus, rep: Report, tier: str):
    rep.rule("C15.R8", "a configuration field that is mutated in place (even temporarily) is re-created for every MdParserConfig instance: copy() is shallow, only a validator that unconditionally stores a new object keeps the copies apart")
    ef = _effects(corpus)
    ci = ef.config_cls
    # copy() -> dataclasses.replace -> __init__ -> __post_init__ -> validate_fields(self): the validators run for every copy
    pi = corpus.lookup_method(ci, "__post_init__")
    if pi is None or not any(isinstance(c, ast.Call) and (dotted(c.func) or "") == "validate_fields" and c.args and unparse(c.args[0]) == "self" for c in walk_local(pi.node)):
        rep.error("C15.R8", "MdParserConfig.__post_init__ no longer calls validate_fields(self): how copies get their own field objects is not understood")
        return
    validators = _field_validators(corpus)
    if len(validators) < 20:
        rep.error("C15.R8", f"only {len(validators)} field validators found in MdParserConfig")
        return
    n = 0
    seen = set()
    for s in ef.sites():
        if s.fi.fq not in ef.parse_reach or not (s.how.startswith("mutator:") or (s.how in ("store", "aug", "del") and isinstance(s.node, (ast.Assign, ast.AugAssign, ast.Delete)) and s.written != f"{unparse(s.container)}." )):
            continue
        # in-place change of the object held by <config>.<field>
        c = s.container
        if s.how in ("store", "aug", "del"):
            # container[k] = v  /  del container[k]   (attribute stores rebind, they do not mutate the field object)
            tg = s.node.targets[0] if isinstance(s.node, (ast.Assign, ast.Delete)) else s.node.target
            if not isinstance(tg, ast.Subscript):
                continue
        if not isinstance(c, ast.Attribute):
            # alias: x = cfg.field; x.add(...)
            if isinstance(c, ast.Name):
                f_, binds = ef.lookup(c.id, s.fi)
                vals = [v for kind, v, p_ in binds or [] if kind == "assign" and v is not None and not p_ and isinstance(v, ast.Attribute)]
                if len(vals) != 1:
                    continue
                c = vals[0]
            else:
                continue
        if ef._is_config_type(c.value, s.fi) != "CONFIG" and not any(r.kind == "CONFIG" for r in ef.classify(c.value, s.fi)):
            continue
        field = c.attr
        if field not in validators:
            continue
        k = f"MdParserConfig.{field}|mutated in place by {s.fi.qualname}"
        if k in seen:
            continue
        seen.add(k)
        n += 1
        owned = None
        why = ""
        for v in validators[field]:
            fn = corpus.find_function(ci.module.resolve(dotted(v) or "")) if dotted(v) else None
            if fn is None:
                why = f"its validator `{short(v, 40)}` only checks the value, so every copy of the config holds the same object as the config it was copied from"
                continue
            cfg = get_cfg(fn)
            stores_: list[tuple[ast.AST, ast.expr]] = []
            for c2 in walk_local(fn.node, into_lambdas=False):
                if isinstance(c2, ast.Call) and (dotted(c2.func) or "").endswith("setattr") and len(c2.args) >= 3 and unparse(c2.args[-3]) == fn.params[0]:
                    stores_.append((c2, c2.args[-1]))
                elif isinstance(c2, ast.Assign) and len(c2.targets) == 1 and isinstance(c2.targets[0], ast.Attribute) and unparse(c2.targets[0].value) == fn.params[0]:
                    stores_.append((c2, c2.value))
            for c2, val_ in stores_:
                if True:
                    fresh = _fresh_at(ef, fn, val_, c2)
                    uncond = cfg.postdominates(cfg.stmt_of(c2), "ENTRY")
                    if fresh and uncond:
                        owned = fn
                    elif fresh:
                        why = f"{fn.qualname} stores a new object only on some paths (`{short(cfg.stmt_of(c2), 50)}` is conditional): when it is skipped, copy() leaves the copy sharing the object with the global config"
                    else:
                        why = why or f"{fn.qualname} stores `{short(val_, 40)}`, which is not (always) a newly built object"
        shallow = [r_ for kind_, r_ in _copy_kinds(corpus) if kind_ in ("shallow", "self")] + _shallow_config_copies(ef)
        if shallow:
            owned = None
            if isinstance(shallow[0], ast.Call):
                why = f"`{short(shallow[0], 40)}` ({shallow[0]._mod.rel}) makes a shallow copy of a configuration object without running the validators, so the copy holds the very same {field} object as the configuration it was copied from"
            else:
                why = f"MdParserConfig.copy() has a path (`{short(shallow[0], 40)}`) that copies the object without running the validators, so the copy holds the very same {field} object as the configuration it was copied from"
        if owned is not None:
            rep.ok("C15.R8", k, s.site, f"{owned.qualname} unconditionally stores a new object on the instance, so every copy() owns its {field}")
        else:
            rep.violation("C15.R8", k, s.site, f"`{short(s.node, 60)}` changes the {field} object in place, but {why or 'no validator re-creates it per instance'}: the change reaches the global configuration (and every later document) even though the attribute is restored on the per-document copy")
    if n == 0:
        rep.ok("C15.R8", "no configuration field is mutated in place in parse reach", "myst_parser", "nothing to own")


# ---------------------------------------------------------------------------
# R9 state kept on the (pickled) build environment is refreshed by every build


@rule("C15.R9")
def r9_env_config_refreshed(corpus: Corpus, rep: Report, tier: str):
    rep.rule("C15.R9", "every env attribute the parsers read (env.myst_config) is assigned on every normal path of its builder-inited handler: the environment is pickled and re-loaded, a skipped store means the previous build's value is used")
    ef = _effects(corpus)
    # attributes of the env read in parse reach
    read_attrs: dict[str, str] = {}
    for fi in corpus.all_functions():
        if fi.fq not in ef.parse_reach or fi.is_lambda:
            continue
        for n in walk_local(fi.node, into_lambdas=False):
            if isinstance(n, ast.Attribute) and isinstance(n.ctx, ast.Load) and n.attr.startswith("myst") and isinstance(n.value, (ast.Name, ast.Attribute)):
                if (isinstance(n.value, ast.Attribute) and n.value.attr in ENV_ATTRS) or any(r.kind == "ENV" and r.obj for r in ef.classify(n.value, fi)):
                    read_attrs.setdefault(n.attr, fi.module.site(n))
            elif isinstance(n, ast.Call) and dotted(n.func) == "getattr" and len(n.args) >= 2 and isinstance(n.args[1], ast.Constant) and str(n.args[1].value).startswith("myst"):
                if any(r.kind == "ENV" and r.obj for r in ef.classify(n.args[0], fi)):
                    read_attrs.setdefault(n.args[1].value, fi.module.site(n))
    if not read_attrs:
        rep.error("C15.R9", "no env.myst* attribute is read in parse reach (expected env.myst_config)")
        return
    handlers: list[FunctionInfo] = []
    for f2 in corpus.all_functions():
        if f2.fq not in ef.build_reach or f2.is_lambda:
            continue
        for c in walk_local(f2.node):
            if isinstance(c, ast.Call) and isinstance(c.func, ast.Attribute) and c.func.attr == "connect" and len(c.args) >= 2 and isinstance(c.args[0], ast.Constant) and c.args[0].value == "builder-inited" and dotted(c.args[1]):
                h = corpus.find_function(f2.module.resolve(dotted(c.args[1])))
                if h is not None and h not in handlers:
                    handlers.append(h)
    for attr, rsite in sorted(read_attrs.items()):
        writers: dict[str, list[Site]] = {}
        for s in ef.sites():
            if s.how in ("store", "setattr") and (s.written.endswith(f".env.{attr}") or s.written == f"env.{attr}" or (s.written.endswith(f".{attr}") and any(r.kind == "ENV" and r.obj for r in ef.roots(s)))):
                writers.setdefault(s.fi.fq, []).append(s)
        if not writers:
            rep.violation("C15.R9", f"env.{attr}|assigned by a builder-inited handler", rsite, f"env.{attr} is read during parsing but never assigned by the package")
            continue

        def always_stores(fq: str) -> bool:
            ss_ = writers.get(fq)
            if not ss_:
                return False
            c_ = get_cfg(ss_[0].fi)
            st_ = {c_.stmt_of(x.node) for x in ss_}
            return not c_.paths_avoiding("ENTRY", "EXIT", lambda n_: n_ in st_)

        judged = 0
        for h in handlers:
            cfg = get_cfg(h)
            events = {cfg.stmt_of(x.node) for x in writers.get(h.fq, [])}
            for call, targets in ef.g.callees(h):
                if any(always_stores(t.fq) for t in ef.g.flat_targets(targets)):
                    events.add(cfg.stmt_of(call))
            if not events:
                continue
            judged += 1
            k2 = f"{h.fq}|env.{attr} assigned on every path"
            # a store inside a try body may be the statement that raised: the handler path has not assigned anything yet
            handler_gap = False
            for tr_ in [n_ for n_ in walk_local(h.node, into_lambdas=False) if isinstance(n_, ast.Try) and n_.handlers]:
                body_nodes_ = {id(x) for b_ in tr_.body for x in ast.walk(b_)}
                if any(id(e_) in body_nodes_ for e_ in events):
                    outside = {e_ for e_ in events if id(e_) not in body_nodes_}
                    for hd in tr_.handlers:
                        if ("H", hd) in cfg.succ and cfg.paths_avoiding(("H", hd), "EXIT", lambda n_: n_ in outside):
                            handler_gap = True
            if handler_gap or cfg.paths_avoiding("ENTRY", "EXIT", lambda n_: n_ in events):
                rep.violation("C15.R9", k2, h.site(), f"some normal path through {h.qualname} returns without assigning env.{attr}: the environment is un-pickled from the previous build, so that path keeps the previous build's configuration whatever conf.py says now")
            else:
                rep.ok("C15.R9", k2, h.site(), f"every normal path assigns env.{attr}; connected to builder-inited")
        if not judged:
            w0 = next(iter(writers.values()))[0]
            rep.violation("C15.R9", f"env.{attr}|assigned by a builder-inited handler", w0.site, f"env.{attr} is assigned by {w0.fi.qualname}, but no function connected to 'builder-inited' in the setup code does or calls that: nothing refreshes the attribute when a build starts with a re-loaded environment")
    rep.expect_min("C15.R9", 1, "create_myst_config")


# ---------------------------------------------------------------------------
# R10 shared mutable objects are not aliased into slots that are extended in place


def _config_field_immutable(corpus: Corpus, field: str) -> bool:
    ci = corpus.cls(CONFIG_CLS.replace("myst_parser.", "", 1))
    for st in ci.node.body:
        if isinstance(st, ast.AnnAssign) and isinstance(st.target, ast.Name) and st.target.id == field:
            ann = unparse(st.annotation).strip("'\"")
            parts = {p_.strip() for p_ in ann.split("|")}
            return parts <= {"bool", "int", "str", "float", "None", "bytes"} or ann.startswith(("tuple[", "Literal["))
    return False


@rule("C15.R10")
def r10_no_aliasing_into_mutated_slots(corpus: Corpus, rep: Report, tier: str):
    rep.rule("C15.R10", "a slot whose list/dict is extended in place somewhere in the package (node['classes'], node['names'], ...) is never assigned a mutable object that belongs to the shared config, a module global or a class: it gets its own copy")
    ef = _effects(corpus)
    # slots (constant subscript keys) whose content is mutated in place anywhere in parse reach
    mut_keys: dict[str, Site] = {}
    for s in ef.sites():
        if s.fi.fq not in ef.parse_reach:
            continue
        c = s.container
        if (s.how.startswith("mutator:") or s.how in ("store", "aug", "del")) and isinstance(c, ast.Subscript) and isinstance(c.slice, ast.Constant) and isinstance(c.slice.value, str):
            if s.how in ("store", "del") and not isinstance((s.node.targets[0] if isinstance(s.node, (ast.Assign, ast.Delete)) else None), ast.Subscript):
                continue
            mut_keys.setdefault(c.slice.value, s)
        if s.how == "aug" and isinstance(s.node, ast.AugAssign) and isinstance(s.node.target, ast.Subscript) and isinstance(s.node.target.slice, ast.Constant) and isinstance(s.node.target.slice.value, str):
            mut_keys.setdefault(s.node.target.slice.value, s)
    if len(mut_keys) < 2:
        rep.error("C15.R10", f"only {len(mut_keys)} in-place extended slots found (expected 'classes', 'names', ...)")
        return
    for s in ef.sites():
        if s.how != "store" or s.fi.fq not in ef.parse_reach or not isinstance(s.node, (ast.Assign, ast.AnnAssign)):
            continue
        tgts = s.node.targets if isinstance(s.node, ast.Assign) else [s.node.target]
        tg = [t for t0 in tgts for t, _ in _flatten(t0) if isinstance(t, ast.Subscript) and t.value is s.container]
        if not tg or not (isinstance(tg[0].slice, ast.Constant) and tg[0].slice.value in mut_keys):
            continue
        if len(tgts) != 1 or isinstance(tgts[0], (ast.Tuple, ast.List)) or s.value is None:
            continue
        key = tg[0].slice.value
        k = f"{s.key}|slot {key!r}"
        v = s.value
        shared = []
        for r in ef.classify(v, s.fi):
            if r.kind in ("CONFIG", "CLASSATTR", "REGISTRY", "SETTINGS"):
                shared.append(r)
            elif r.kind == "GLOBAL":
                d = dotted(v) or ""
                if d in s.fi.module.const_nodes and not _immutable_const(s.fi.module, d):
                    shared.append(r)
        if shared and isinstance(v, ast.Attribute) and ef._is_config_type(v.value, s.fi) == "CONFIG" and _config_field_immutable(corpus, v.attr):
            shared = []
        m0 = mut_keys[key]
        if shared:
            rep.violation(
                "C15.R10",
                k,
                s.site,
                f"`{short(s.node, 70)}` puts the shared object itself ({shared[0].kind}: {shared[0].why[:120]}) into the {key!r} slot; such slots are extended in place "
                f"(e.g. `{short(m0.node, 50)}` in {m0.fi.qualname}), so the shared object grows with every document and later parses see the additions",
            )
        else:
            rep.ok("C15.R10", k, s.site, "the slot receives an object built for this node")
    rep.expect_min("C15.R10", 3, "assignments to node['names'] / node['classes'] slots")


# ---------------------------------------------------------------------------
# R11 by-products of process-wide memoising lookups do not reach the document


def _registry_call(ef: Effects, v: ast.expr, fi: FunctionInfo, depth: int = 0) -> str | None:
    """Name of the docutils registry lookup that ``v`` evaluates (directly, or through a package helper that returns it)."""
    if not isinstance(v, ast.Call) or depth > 2:
        return None
    name = ef.callee_name(v, fi)
    if name in REGISTRY_CALLS:
        return name
    for t in ef.g.flat_targets(ef.g.resolve_call(v, fi)):
        if t.is_lambda or t.name in ("__init__", "__post_init__"):
            continue
        rets = [n for n in walk_local(t.node, into_lambdas=False) if isinstance(n, ast.Return) and n.value is not None]
        for r in rets:
            rv = r.value
            if isinstance(rv, ast.Name):
                _, b = ef.lookup(rv.id, t)
                vals = [x for k_, x, p_ in b or [] if k_ == "assign" and x is not None and not p_]
                rv = vals[0] if len(vals) == 1 else rv
            got = _registry_call(ef, rv, t, depth + 1)
            if got:
                return got
    return None


@rule("C15.R11")
def r11_lookup_messages(corpus: Corpus, rep: Report, tier: str):
    rep.rule("C15.R11", "the system messages that docutils' role/directive lookup returns (emitted only the first time a name is looked up in a process) are used only on the path where the lookup failed")
    ef = _effects(corpus)
    n_inst = 0
    for fi in corpus.all_functions():
        if fi.is_lambda or fi.fq not in ef.parse_reach:
            continue
        b = ef.bindings(fi)
        # names unpacked from a registry lookup: obj, messages = <lookup>  /  out = <lookup>; obj, messages = out
        for st in [n for n in walk_local(fi.node, into_lambdas=False) if isinstance(n, (ast.Assign, ast.AnnAssign))]:
            tg = st.targets[0] if isinstance(st, ast.Assign) and len(st.targets) == 1 else getattr(st, "target", None)
            if not (isinstance(tg, (ast.Tuple, ast.List)) and len(tg.elts) == 2 and all(isinstance(e, ast.Name) for e in tg.elts)) or st.value is None:
                continue
            v = st.value
            if isinstance(v, ast.Name):
                vals = [x for k_, x, p_ in b.get(v.id, []) if k_ == "assign" and x is not None and not p_]
                v = vals[0] if len(vals) == 1 else v
            reg = _registry_call(ef, v, fi)
            if not reg:
                continue
            obj, msgs = tg.elts[0].id, tg.elts[1].id
            n_inst += 1
            cfg = get_cfg(fi)
            k = f"{fi.fq}|messages of {reg.rsplit('.', 1)[-1]}() lookup ({msgs})"
            bad = None
            uses = [n for n in walk_local(fi.node, into_lambdas=False) if isinstance(n, ast.Name) and n.id == msgs and isinstance(n.ctx, ast.Load)]
            for u in uses:
                gs = cfg.guards(cfg.stmt_of(u))
                failed = any(
                    (isinstance(t, ast.Name) and t.id == obj and not pol)
                    or (isinstance(t, ast.Compare) and isinstance(t.left, ast.Name) and t.left.id == obj and len(t.ops) == 1 and isinstance(t.ops[0], ast.Is) and isinstance(t.comparators[0], ast.Constant) and t.comparators[0].value is None and pol)
                    or (isinstance(t, ast.Compare) and isinstance(t.left, ast.Name) and t.left.id == obj and len(t.ops) == 1 and isinstance(t.ops[0], ast.IsNot) and isinstance(t.comparators[0], ast.Constant) and t.comparators[0].value is None and not pol)
                    for t, pol in gs
                )
                if not failed:
                    bad = u
                    break
            if bad is not None:
                rep.violation(
                    "C15.R11",
                    k,
                    fi.module.site(bad),
                    f"`{short(cfg.stmt_of(bad), 70)}` uses the messages of the {reg} lookup on a path where the lookup succeeded: docutils emits those (language-fallback INFO) messages only the first time "
                    f"a name is looked up in a process and then serves the name from its global cache, so the first document that uses `{obj}` gets extra nodes that later documents do not",
                )
            else:
                rep.ok("C15.R11", k, fi.module.site(st), f"{len(uses)} use(s), all under the lookup-failed test of `{obj}`")
    if n_inst == 0:
        rep.ok("C15.R11", "no registry lookup is unpacked in parse reach", "myst_parser", "nothing to judge")


# ---------------------------------------------------------------------------
# R12 no emission API that remembers what it emitted before

ONCE_EXCEPTIONS = {
    "myst_parser.sphinx_ext.myst_refs:MystReferenceResolver.resolve_myst_ref_any": "notice about a third-party domain without resolve_any_xref: it is passed target None / no location and does not belong to a document (one per build is its meaning)",
}


@rule("C15.R12")
def r12_no_once_emission(corpus: Corpus, rep: Report, tier: str):
    rep.rule("C15.R12", "warnings are not emitted through APIs that de-duplicate against earlier emissions of the process (Sphinx logging once=True, warnings.warn): whether a document gets its warning must not depend on other documents")
    ef = _effects(corpus)
    n = 0
    for fi in corpus.all_functions():
        if fi.fq not in ef.parse_reach:
            continue
        for c in walk_local(fi.node, into_lambdas=False):
            if not isinstance(c, ast.Call):
                continue
            name = ef.callee_name(c, fi)
            kw = [k for k in c.keywords if k.arg == "once"]
            is_warn = name in ("warnings.warn", "warnings.warn_explicit")
            if not kw and not is_warn:
                continue
            n += 1
            k = stmt_key(fi, c, 90)
            site = fi.module.site(c)
            if is_warn:
                rep.violation("C15.R12", k, site, f"`{short(c, 50)}`: Python's warnings machinery shows a warning once per code location and process (the __warningregistry__), so only the first document that triggers it is told")
                continue
            v = kw[0].value
            if isinstance(v, ast.Constant) and not v.value:
                rep.ok("C15.R12", k, site, "once is false")
                continue
            owner = fi
            while owner is not None and not (isinstance(v, ast.Name) and v.id in owner.params):
                owner = owner.parent_func
            if owner is not None:
                rep.ok("C15.R12", k, site, f"forwards its own `{v.id}` parameter: judged at the callers")
                continue
            if fi.fq in ONCE_EXCEPTIONS and c.args and isinstance(c.args[0], ast.Constant) and c.args[0].value is None:
                rep.assumed("C15.R12", k, site, ONCE_EXCEPTIONS[fi.fq])
                continue
            rep.violation("C15.R12", k, site, f"`{short(c, 60)}` asks Sphinx's logger to emit the message only once per application (OnceFilter keys on the message text, not on the location): a document whose warning text was already produced by an earlier document of the build gets no warning, and serial and parallel reads differ")
    if n == 0:
        rep.ok("C15.R12", "no once-only emission in parse reach", "myst_parser", "nothing to judge")


# ---------------------------------------------------------------------------
# R13 the iteration order of a set never becomes text


def _is_set_expr(ef: Effects, e: ast.expr, fi: FunctionInfo, depth: int = 0) -> bool:
    if depth > 4:
        return False
    if isinstance(e, (ast.Set, ast.SetComp)):
        return True
    if isinstance(e, ast.Call):
        d = dotted(e.func) or ""
        if d in ("set", "frozenset"):
            return True
        if isinstance(e.func, ast.Attribute) and e.func.attr in ("intersection", "difference", "union", "symmetric_difference") :
            return _is_set_expr(ef, e.func.value, fi, depth + 1) or any(_is_set_expr(ef, a, fi, depth + 1) for a in e.args)
        if isinstance(e.func, ast.Attribute) and e.func.attr == "copy":
            return _is_set_expr(ef, e.func.value, fi, depth + 1)
        return False
    if isinstance(e, ast.BinOp) and isinstance(e.op, (ast.Sub, ast.BitAnd, ast.BitOr, ast.BitXor)):
        return _is_set_expr(ef, e.left, fi, depth + 1) or _is_set_expr(ef, e.right, fi, depth + 1)
    if isinstance(e, ast.IfExp):
        return _is_set_expr(ef, e.body, fi, depth + 1) or _is_set_expr(ef, e.orelse, fi, depth + 1)
    if isinstance(e, ast.Name):
        f, binds = ef.lookup(e.id, fi)
        if not binds:
            return False
        if f is fi and hasattr(e, "lineno"):
            rv = _reaching_def_value(fi, e, e)
            if rv is not e:
                return _is_set_expr(ef, rv, fi, depth + 1)
        vals = []
        for kind, v, p_ in binds:
            if kind == "param":
                a = f.node.args
                for x in a.posonlyargs + a.args + a.kwonlyargs:
                    if x.arg == e.id and x.annotation is not None and unparse(x.annotation).strip("'\"").lower().startswith(("set[", "set", "frozenset", "abstractset")):
                        return True
                return False
            if kind == "assign" and v is not None and not p_:
                vals.append(v)
            else:
                return False
        return bool(vals) and all(_is_set_expr(ef, v, f, depth + 1) for v in vals)
    if isinstance(e, ast.Attribute):
        try:
            t = ef.g.expr_type(e.value, fi)
        except Exception:
            t = None
        if t and t[0] == "is":
            for c in ef.c.mro(t[1]):
                for st in c.node.body:
                    if isinstance(st, ast.AnnAssign) and isinstance(st.target, ast.Name) and st.target.id == e.attr:
                        return unparse(st.annotation).strip("'\"").lower().startswith(("set[", "frozenset["))
    return False


@rule("C15.R13")
def r13_set_order_not_in_text(corpus: Corpus, rep: Report, tier: str):
    rep.rule("C15.R13", "a set is never formatted into text (f-string, str/repr/format/%, join) without sorting: its iteration order depends on the hash seed of the process, so the same document would get different warning text in different processes")
    ef = _effects(corpus)
    n = 0
    for fi in corpus.all_functions():
        if fi.fq not in ef.parse_reach or fi.name in ("__repr__", "__str__") and False:
            continue
        for node in walk_local(fi.node, into_lambdas=False):
            cands: list[tuple[ast.expr, str]] = []
            if isinstance(node, ast.FormattedValue):
                cands.append((node.value, "f-string"))
            elif isinstance(node, ast.Call):
                d = dotted(node.func) or ""
                if d in ("str", "repr", "format") and node.args:
                    cands.append((node.args[0], f"{d}()"))
                elif isinstance(node.func, ast.Attribute) and node.func.attr == "format":
                    cands += [(a, ".format()") for a in list(node.args) + [k.value for k in node.keywords]]
                elif isinstance(node.func, ast.Attribute) and node.func.attr == "join" and node.args:
                    a0 = node.args[0]
                    if isinstance(a0, (ast.GeneratorExp, ast.ListComp)) and a0.generators:
                        cands.append((a0.generators[0].iter, "join over"))
                    else:
                        cands.append((a0, "join"))
                elif d in ("list", "tuple") and node.args and isinstance(parent(node), (ast.FormattedValue,)):
                    cands.append((node.args[0], f"{d}() in an f-string"))
            elif isinstance(node, ast.BinOp) and isinstance(node.op, ast.Mod) and isinstance(node.left, (ast.Constant, ast.JoinedStr)):
                cands += [(x, "% formatting") for x in (node.right.elts if isinstance(node.right, ast.Tuple) else [node.right])]
            for e, how in cands:
                if not _is_set_expr(ef, e, fi):
                    continue
                n += 1
                k = f"{fi.fq}|{how} {short(e, 50)}"
                rep.violation(
                    "C15.R13",
                    k,
                    fi.module.site(node),
                    f"`{short(parent(node) if isinstance(node, ast.FormattedValue) else node, 70)}` turns the set `{short(e, 40)}` into text in its iteration order, which differs from process to process (string hashing is randomised): "
                    "the message of the same document differs between runs/workers; sort it first",
                )
    # sorted(...) sites are the discharged obligations: list them so the rule is not vacuous
    for fi in corpus.all_functions():
        if fi.fq not in ef.parse_reach:
            continue
        for node in walk_local(fi.node, into_lambdas=False):
            if isinstance(node, ast.Call) and dotted(node.func) == "sorted" and node.args and _is_set_expr(ef, node.args[0], fi):
                rep.ok("C15.R13", f"{fi.fq}|sorted({short(node.args[0], 40)})", fi.module.site(node), "set ordered before it is turned into text")
    if not any(i.rule == "C15.R13" for i in rep.items):
        rep.ok("C15.R13", "no set is formatted in parse reach", "myst_parser", "nothing to judge")


# ---------------------------------------------------------------------------
# R14 shared mutable values are not handed to template code by reference


def _is_template_render(ef: Effects, call: ast.Call, fi: FunctionInfo) -> bool:
    f = call.func
    if not (isinstance(f, ast.Attribute) and f.attr == "render"):
        return False
    recv = f.value
    # env.from_string(...).render(...) / template = env.from_string(...); template.render(...)
    def from_env(x: ast.expr, depth: int = 0) -> bool:
        if depth > 3:
            return False
        if isinstance(x, ast.Call) and isinstance(x.func, ast.Attribute) and x.func.attr in ("from_string", "get_template", "select_template"):
            return True
        if isinstance(x, ast.Call) and ef.callee_name(x, fi).startswith("jinja2."):
            return True
        if isinstance(x, ast.Name):
            _, b = ef.lookup(x.id, fi)
            return any(k_ == "assign" and v is not None and from_env(v, depth + 1) for k_, v, _p in b or [])
        return False

    return from_env(recv)


def _content_roots(ef: Effects, e: ast.expr, fi: FunctionInfo, depth: int = 0) -> list[tuple[Root, ast.AST, FunctionInfo]]:
    """Shared roots of the objects that the container ``e`` *holds* (one level: a shallow copy still holds the originals)."""
    out: list[tuple[Root, ast.AST, FunctionInfo]] = []
    if depth > 5:
        return out

    def held_by(obj: ast.expr, f: FunctionInfo) -> list[tuple[Root, ast.AST, FunctionInfo]]:
        """``obj`` is itself a container whose elements get exposed (unpacked / shallow-copied)."""
        if isinstance(obj, ast.Call):
            d = dotted(obj.func) or ""
            if d.endswith("deepcopy"):
                return []
            if d in _COPY_CALLS and obj.args:
                return held_by(obj.args[0], f)
            if isinstance(obj.func, ast.Attribute) and obj.func.attr == "copy":
                return held_by(obj.func.value, f)
        if isinstance(obj, (ast.Dict, ast.List, ast.Set, ast.Tuple)):
            return _content_roots(ef, obj, f, depth + 1)
        if isinstance(obj, ast.Name):
            return _content_roots(ef, obj, f, depth + 1)
        if isinstance(obj, ast.Attribute) and isinstance(obj.value, ast.Name) and obj.value.id == "self":
            so = ef.self_owner(f)
            stores = ef._self_store_index(so.cls).get(obj.attr) if so is not None else None
            if stores:
                res = []
                for meth, v in stores:
                    if isinstance(v, ast.Constant):
                        continue
                    res += held_by(v, meth)
                # ... and what is put into it item by item:  self.attr[k] = V
                for c_ in [so.cls] + ef.c.mro(so.cls) + ef.c.subclasses(so.cls):
                    for meth in c_.methods.values():
                        for n in walk_local(meth.node, into_lambdas=False):
                            if isinstance(n, ast.Assign) and len(n.targets) == 1 and isinstance(n.targets[0], ast.Subscript) and unparse(n.targets[0].value) == f"self.{obj.attr}":
                                v = n.value
                                if isinstance(v, ast.Call) and (dotted(v.func) or "").endswith("deepcopy"):
                                    continue
                                if isinstance(v, ast.Call) and ((dotted(v.func) or "") in _COPY_CALLS or (isinstance(v.func, ast.Attribute) and v.func.attr == "copy")):
                                    inner = v.args[0] if v.args else v.func.value
                                    # one level copied: what the value holds is still the shared objects
                                    res += [(Root(r.kind, r.why + " (only the top level of the value is copied)", r.dockey, r.obj), n_, f_) for r, n_, f_ in _content_roots(ef, inner, meth, depth + 1)]
                                    res += [(Root(r.kind, r.why + " (only the top level of the value is copied)"), v, meth) for r in ef.classify(inner, meth) if r.kind in ("CONFIG", "GLOBAL", "CLASSATTR", "SETTINGS")]
                                else:
                                    res += [(r, v, meth) for r in ef.classify(v, meth) if r.kind in ("CONFIG", "GLOBAL", "CLASSATTR", "SETTINGS")]
                                    if isinstance(v, ast.Name):
                                        # (attributed to the store, so that a by-reference fallback in an except handler is seen as one)
                                        res += [(r, v, meth) for r, _n, _f in _content_roots(ef, v, meth, depth + 1)]
                seen_ = set()
                res = [x for x in res if not (id(x[1]) in seen_ or seen_.add(id(x[1])))]
                return res
        return [(r, obj, f) for r in ef.classify(obj, f) if r.kind in ("CONFIG", "GLOBAL", "CLASSATTR", "SETTINGS")]

    if isinstance(e, ast.Dict):
        for k_, v in zip(e.keys, e.values):
            if k_ is None:
                out += held_by(v, fi)
            else:
                out += [(r, v, fi) for r in ef.classify(v, fi) if r.kind in ("CONFIG", "GLOBAL", "CLASSATTR", "SETTINGS")]
    elif isinstance(e, (ast.List, ast.Set, ast.Tuple)):
        for v in e.elts:
            if isinstance(v, ast.Starred):
                out += held_by(v.value, fi)
            else:
                out += [(r, v, fi) for r in ef.classify(v, fi) if r.kind in ("CONFIG", "GLOBAL", "CLASSATTR", "SETTINGS")]
    elif isinstance(e, ast.Name):
        f, binds = ef.lookup(e.id, fi)
        for kind, v, p_ in binds or []:
            if kind == "assign" and v is not None and not p_:
                out += held_by(v, f) if not isinstance(v, (ast.Dict, ast.List, ast.Set, ast.Tuple)) else _content_roots(ef, v, f, depth + 1)
            elif kind == "elem" and v is not None:
                # a loop variable over a shared container is one of the shared objects itself
                out += [(r, v, f) for r in ef.classify(v, f) if r.kind in ("CONFIG", "GLOBAL", "CLASSATTR", "SETTINGS")]
        if f is not None:
            for n in walk_local(f.node, into_lambdas=False):
                if isinstance(n, ast.Assign) and len(n.targets) == 1 and isinstance(n.targets[0], ast.Subscript) and isinstance(n.targets[0].value, ast.Name) and n.targets[0].value.id == e.id:
                    out += [(r, n.value, f) for r in ef.classify(n.value, f) if r.kind in ("CONFIG", "GLOBAL", "CLASSATTR", "SETTINGS")]
    else:
        out += held_by(e, fi)
    return out


@rule("C15.R14")
def r14_template_context(corpus: Corpus, rep: Report, tier: str):
    rep.rule("C15.R14", "the variable context given to a template holds deep copies of configured values: template code can call mutating methods, and a shallow copy still hands it the dict/list objects all documents share")
    ef = _effects(corpus)
    n = 0
    for fi in corpus.all_functions():
        if fi.is_lambda or fi.fq not in ef.parse_reach:
            continue
        for call in [c for c in walk_local(fi.node, into_lambdas=False) if isinstance(c, ast.Call)]:
            if not _is_template_render(ef, call, fi):
                continue
            n += 1
            k = f"{fi.fq}|{short(call, 70)}"
            site = fi.module.site(call)
            held = []
            for a in list(call.args) + [kw.value for kw in call.keywords]:
                held += _content_roots(ef, a, fi)
            # the Sphinx env itself in the context: everything shared is reachable from it
            env_in_ctx = None
            for a in list(call.args) + [kw.value for kw in call.keywords]:
                if isinstance(a, ast.Name):
                    f_, _b = ef.lookup(a.id, fi)
                    for n_ in walk_local((f_ or fi).node, into_lambdas=False):
                        if isinstance(n_, ast.Assign) and len(n_.targets) == 1 and isinstance(n_.targets[0], ast.Subscript) and isinstance(n_.targets[0].value, ast.Name) and n_.targets[0].value.id == a.id:
                            if any(r.kind == "ENV" and r.obj for r in ef.classify(n_.value, f_ or fi)):
                                env_in_ctx = n_
                elif any(r.kind == "ENV" and r.obj for r in ef.classify(a, fi)):
                    env_in_ctx = a
            if env_in_ctx is not None:
                rep.violation(
                    "C15.R14",
                    f"{fi.fq}|template context holds the Sphinx env",
                    fi.module.site(env_in_ctx),
                    f"`{short(env_in_ctx, 60)}` puts the Sphinx BuildEnvironment itself into the template context: an expression can reach every shared mutable object through it "
                    "(env.myst_config.substitutions, env.config.*, env.app ...) and the sandbox permits list.append/dict.update on them, so a document can change what later documents of the same process see "
                    "(serial and parallel reads differ)",
                )
            if not held:
                rep.ok("C15.R14", k, site, "nothing that the configuration (or a global) owns is reachable from the context by reference")
                continue
            # a by-reference fallback inside the handler of a try that attempts the deep copy first is best effort
            hard = []
            for r, node_, f_ in held:
                best_effort = False
                child = node_
                for a_ in ancestors(node_):
                    if isinstance(a_, ast.ExceptHandler):
                        tr = parent(a_)
                        if isinstance(tr, ast.Try) and any(isinstance(c_, ast.Call) and (dotted(c_.func) or "").endswith("deepcopy") for b_ in tr.body for c_ in ast.walk(b_)):
                            best_effort = True
                    child = a_
                if not best_effort:
                    hard.append((r, node_, f_))
            if hard:
                r, node_, f_ = hard[0]
                rep.violation(
                    "C15.R14",
                    k,
                    site,
                    f"the context of `{short(call, 50)}` holds `{short(node_, 50)}` ({r.kind}: {r.why[:100]}) by reference (at most a shallow copy): an expression such as "
                    "`{{ counter.update(...) }}` or `{{ seen.append(...) }}` changes the configured value for every document parsed later in the process",
                )
            else:
                rep.assumed("C15.R14", k, site, "deep copy attempted first; only values that cannot be deep-copied stay shared (best effort, by-reference fallback in the except handler)")
    if n == 0:
        rep.ok("C15.R14", "no template is rendered in parse reach", "myst_parser", "nothing to judge")


# ---------------------------------------------------------------------------
# R15 containers taken from the user's Sphinx configuration are copied before they are written


@rule("C15.R15")
def r15_user_config_containers(corpus: Corpus, rep: Report, tier: str):
    rep.rule("C15.R15", "a dict/list found below app.config (the user's conf.py objects, which may be shared by several builds in one process) is only written after it has been replaced by a copy on every path")
    ef = _effects(corpus)
    n = 0
    for s in ef.sites():
        if s.how.startswith(("envcall", "envarg", "instcall")) or s.fi.is_lambda:
            continue
        c = s.container
        ctext = _ntext(c, s.fi)
        # in-place writes: container is something *below* <app>.config.<name>
        parts = ctext.split(".config.", 1)
        if len(parts) != 2 or not parts[1]:
            continue
        base_expr = c
        while isinstance(base_expr, (ast.Subscript, ast.Attribute, ast.Call)) and not (isinstance(base_expr, ast.Attribute) and base_expr.attr == "config"):
            base_expr = base_expr.func if isinstance(base_expr, ast.Call) else base_expr.value
        if not (isinstance(base_expr, ast.Attribute) and base_expr.attr == "config" and any(r.kind == "ENV" for r in ef.classify(base_expr.value, s.fi))):
            continue
        if s.how == "store" and s.written == ctext:
            continue
        if s.how in ("store", "aug", "del"):
            tg = s.node.targets[0] if isinstance(s.node, (ast.Assign, ast.Delete)) else getattr(s.node, "target", None)
            if not isinstance(tg, ast.Subscript):
                continue  # app.config.x = ...  rebinding an attribute of the config object is not an in-place change of a user container
        n += 1
        k = f"{s.key}|{s.how}"
        cfg = get_cfg(s.fi)
        use = cfg.stmt_of(s.node)
        fresh_store = None
        for o in ef.sites():
            if o.fi.fq != s.fi.fq or o.how != "store" or o.written != ctext or not isinstance(o.node, ast.Assign):
                continue
            ost = cfg.stmt_of(o.node)
            if ost is not use and cfg.dominates(ost, use) and _fresh_at(ef, s.fi, o.node.value, o.node):
                fresh_store = o
        if fresh_store is not None:
            rep.ok("C15.R15", k, s.site, f"`{ctext}` was replaced by a new object (`{short(fresh_store.node, 50)}`) on every path before it is written")
        else:
            rep.violation(
                "C15.R15",
                k,
                s.site,
                f"`{short(s.node, 60)}` writes into `{ctext}`, an object that comes from the user's configuration, without it having been replaced by a copy on every path before: "
                "the user's dictionary is modified in place, and a later build in the same process (or anything else sharing the object) reads MyST's value back as if the user had set it",
            )
    if n == 0:
        rep.ok("C15.R15", "no container below app.config is written in place", "myst_parser", "nothing to judge")

# ---------------------------------------------------------------------------
# R6 document-scoped state (evidence only)


@rule("C15.R6")
def r6_document_scoped(corpus: Corpus, rep: Report, tier: str):
    rep.rule("C15.R6", "remaining cross-call state is attached to the per-parse document / settings / reporter / markdown-it env (listed, not judged)")
    ef = _effects(corpus)
    n = 0
    seen = set()
    for s in ef.sites():
        if s.fi.fq not in ef.parse_reach or s.how.startswith(("envcall", "envarg")):
            continue
        c = unparse(s.container)
        tail = c.rsplit(".", 1)[-1]
        if tail in ("document", "reporter", "md_env") or c in ("document",):
            if any(r.kind in SHARED for r in ef.roots(s)):
                continue
            k = f"{s.fi.fq}|{s.written}"
            if k in seen:
                continue
            seen.add(k)
            n += 1
            rep.listed("C15.R6", k, s.site, f"{s.how}: per-parse object")
    if n < 6:
        rep.error("C15.R6", f"only {n} document-scoped writes found (expected myst_slugs, sub_references, myst_include_stack, footnote settings, source overrides ...)")


# ---------------------------------------------------------------------------
# R2 pairing of temporary mutations

INVERSE = {"difference_update": ("update",), "discard": ("add",), "remove": ("add", "append"), "pop": ("append",)}


def _stmts_before(fi: FunctionInfo, tr: ast.Try) -> list[ast.stmt]:
    """Statements that execute on every path before ``tr`` (dominators of it), outermost first."""
    cfg = get_cfg(fi)
    out = [n for n in cfg.dom().get(tr, set()) if isinstance(n, ast.stmt) and n is not tr]
    out.sort(key=lambda n: n.lineno)
    return out


def _written_places(ef: Effects, fi: FunctionInfo, stmts: list[ast.stmt]) -> list[Site]:
    ids = set()
    for st in stmts:
        for n in ast.walk(st):
            ids.add(id(n))
    return [s for s in ef.sites() if s.fi.fq == fi.fq and id(s.node) in ids and not s.how.startswith(("envcall", "envarg"))]


@rule("C15.R2")
def r2_pairing(corpus: Corpus, rep: Report, tier: str):
    rep.rule("C15.R2", "temporary mutation: the saved value is read from the restored place before the try, is a copy when the place is mutated in place, and every undo in finally has its forward operation")
    ef = _effects(corpus)
    n_try = 0
    for fi in corpus.all_functions():
        if fi.is_lambda or fi.fq not in ef.parse_reach:
            continue
        for tr in [n for n in walk_local(fi.node, into_lambdas=False) if isinstance(n, ast.Try) and n.finalbody]:
            n_try += 1
            cfg = get_cfg(fi)
            before = _stmts_before(fi, tr)
            body_sites = _written_places(ef, fi, tr.body + [s for h in tr.handlers for s in h.body] + tr.orelse)
            before_sites = _written_places(ef, fi, before)
            # (i) PLACE = saved
            for st in _stores_in(tr.finalbody):
                place = _ntext(st.targets[0], fi)
                k = f"{fi.fq}|finally restores {place}"
                site = fi.module.site(st)
                info = _restore_info(fi, st)
                if info is None:
                    rep.listed("C15.R2", k, site, f"finally assigns `{short(st.value, 40)}` (not a saved variable)")
                    continue
                name, defs = info
                bad = None
                if not defs:
                    owner_ = fi
                    while owner_ is not None and name not in owner_.params:
                        owner_ = owner_.parent_func
                    if owner_ is not None:
                        rep.listed("C15.R2", k, site, f"finally assigns the parameter `{name}` (what the caller handed in) - not judged")
                        continue
                    bad = f"`{name}` is never assigned in {fi.qualname}"
                unjudged = None
                for d, kind in defs:
                    if kind is None:
                        dv = getattr(d, "value", None)
                        if dv is not None and _reads_a_place(dv):
                            bad = f"`{name}` (`{short(d, 50)}`) is not read from `{place}`: the finally block writes back a value that was saved from somewhere else"
                        else:
                            unjudged = f"`{name}` is computed by `{short(d, 40)}`, not saved from a place - not judged"
                    elif d.lineno >= tr.lineno or not (cfg.dominates(cfg.stmt_of(d), tr) or _same_guards(cfg, d, st)):
                        bad = f"`{name}` is not saved on every path before the try statement (the saved value may already contain the temporary mutation)"
                if bad is None and unjudged:
                    rep.listed("C15.R2", k, site, unjudged)
                    continue
                if bad is None:
                    inplace = [s for s in body_sites + [b for b in before_sites if any(b.node.lineno > d.lineno for d, _ in defs)] if _covers(place, s.written) and (s.how.startswith("mutator") or s.written != place)]
                    # rebinding the place to another object first (PLACE = dict(saved)) means the later in-place changes hit that object
                    rebinds = [s for s in body_sites + before_sites if s.written == place and s.how == "store" and any(s.node.lineno > d.lineno for d, _ in defs)]
                    if rebinds:
                        first_rebind = min(s.node.lineno for s in rebinds)
                        inplace = [s for s in inplace if s.node.lineno < first_rebind]
                    if inplace and any(kind == "alias" for _, kind in defs):
                        s0 = inplace[0]
                        bad = f"`{short(s0.node, 50)}` mutates the object in place while `{name}` is only an alias of it (no copy): the restore writes the mutated object back"
                    # a change of *shared* state before the try is entered is not covered by the finally if something in between raises
                    leaked = [b for b in before_sites if _covers(place, b.written) and all(b.node.lineno > d.lineno for d, _ in defs) and tr not in _covering_tries(fi, b.node) and any(r.kind in SHARED for r in ef.roots(b))]
                    if bad is None and leaked:
                        bad = f"`{short(leaked[0].node, 50)}` changes the shared `{place}` before the try statement is entered: an exception in between skips the restore"
                if bad:
                    rep.violation("C15.R2", k, site, bad)
                else:
                    rep.ok("C15.R2", k, site, f"saved in `{name}` ({'/'.join(sorted({k_ for _, k_ in defs}))}) before the try, restored in finally")
            # (ii)/(iii) undo operations
            for st in tr.finalbody:
                for n in ast.walk(st):
                    undo = None
                    if isinstance(n, ast.Call) and isinstance(n.func, ast.Attribute) and n.func.attr in INVERSE and isinstance(parent(n), ast.Expr):
                        undo = n
                    if undo is not None:
                        recv = _ntext(undo.func.value, fi)
                        m = undo.func.attr
                        k = f"{fi.fq}|finally {recv}.{m}({', '.join(unparse(a) for a in undo.args)})"
                        site = fi.module.site(undo)
                        if m == "pop" and undo.args:
                            # removal of a key installed in the body
                            keytxt = f"{recv}[{unparse(undo.args[0])}]"
                            fw = [s for s in body_sites if s.written == keytxt]
                            if fw:
                                rep.ok("C15.R2", k, site, f"removes the key stored by `{short(fw[0].node, 50)}` in the try body")
                            else:
                                rep.listed("C15.R2", k, site, f"finally removes `{keytxt}`; no store of it is visible in the try body (set by a callee?) - not judged")
                            continue
                        fws_any = [s for s in body_sites + before_sites if s.how.startswith("mutator:") and s.how.split(":")[1] in INVERSE[m] and s.written == recv]
                        fws = fws_any
                        if m != "pop":
                            fws = [s for s in fws if [unparse(a) for a in s.node.args] == [unparse(a) for a in undo.args]]
                        if fws:
                            rep.ok("C15.R2", k, site, f"undoes `{short(fws[0].node, 50)}`")
                        elif not fws_any:
                            rep.listed("C15.R2", k, site, "no forward operation on this object is visible in or before the try (done by a callee?) - not judged")
                        else:
                            rep.violation("C15.R2", k, site, f"finally calls {recv}.{m}(...) but no matching {'/'.join(INVERSE[m])} on the same object with the same argument precedes it: what is removed is not what was added")
                    if isinstance(n, ast.Delete):
                        for t in n.targets:
                            txt = _ntext(t, fi)
                            k = f"{fi.fq}|finally del {txt}"
                            fw = [s for s in body_sites if s.written == txt and s.how == "store"]
                            if fw:
                                rep.ok("C15.R2", k, fi.module.site(n), "removes what the try body installed")
                            else:
                                rep.listed("C15.R2", k, fi.module.site(n), f"finally deletes `{txt}`; no store of it is visible in the try body - not judged")
    rep.expect_min("C15.R2", 6, "restore/undo statements in finally blocks (figure-md 1, include mock 7, substitution 1)")

RULES = [r1_effect_classification, r2_pairing, r3_pure_caches, r4_freshness, r5_reset_completeness, r6_document_scoped, r7_nondeterminism, r8_field_ownership, r9_env_config_refreshed, r10_no_aliasing_into_mutated_slots, r11_lookup_messages, r12_no_once_emission, r13_set_order_not_in_text, r14_template_context, r15_user_config_containers]



# ---------------------------------------------------------------------------
# mutants of the current tree


def _multi_splice(src: str, edits: list[tuple[ast.AST, str]]) -> str:
    for node, text in sorted(edits, key=lambda x: (x[0].lineno, x[0].col_offset), reverse=True):
        src = splice(src, node, text)
    return src


def _seg(fi: FunctionInfo, node: ast.AST) -> str:
    return ast.get_source_segment(fi.module.src, node) or ""


def _prepend_stmt(fi: FunctionInfo, text: str) -> str:
    first = fi.node.body[0]
    if isinstance(first, ast.Expr) and isinstance(first.value, ast.Constant) and len(fi.node.body) > 1:
        first = fi.node.body[1]
    ind = indent_of(fi, first)
    return splice(fi.module.src, first, text + "\n" + ind + _seg(fi, first))


def mutants(corpus: Corpus):
    out: list = []

    def add(mid, rule_id, fi_or_mod, new_src, expect, canary=False):
        rel = fi_or_mod.module.rel if isinstance(fi_or_mod, FunctionInfo) else fi_or_mod.rel
        out.append(Mutant(mid, rule_id, rel, new_src, expect=expect, canary=canary))

    base = corpus.mod("mdit_to_docutils.base")
    # --- R1 ---------------------------------------------------------------------------------
    f = corpus.func("parsers.docutils_:Parser.parse")
    st = find_stmt(f, lambda n: isinstance(n, ast.Assign) and unparse(n.targets[0]) == "HTMLTranslator.visit_rubric")
    if st is not None:
        ind = indent_of(f, st)
        add("c15-install-conditional-on-content", "C15.R1", f, splice(f.module.src, st, 'if "rubric" in inputstring:\n' + ind + "    " + _seg(f, st)), "visit_rubric", True)
    else:
        out.append(("c15-install-conditional-on-content", "HTMLTranslator.visit_rubric install not found"))
    f = corpus.func("sphinx_ext.directives:FigureMarkdown.run")
    tr = find_stmt(f, lambda n: isinstance(n, ast.Try) and n.finalbody)
    if tr is not None:
        ind = indent_of(f, tr)
        body = [_seg(f, x) for x in tr.body + tr.finalbody]
        add("c15-figure-md-finally-dropped", "C15.R1", f, splice(f.module.src, tr, ("\n" + ind).join(body)), "add('html_image')")
        add("c15-figure-md-restore-dropped", "C15.R1", f, splice(f.module.src, tr.finalbody[0], "pass"), "add('html_image')")
        save = find_stmt(f, lambda n: isinstance(n, ast.Assign) and isinstance(n.value, ast.Call) and dotted(n.value.func) == "copy")
        addst = find_stmt(f, lambda n: isinstance(n, ast.Expr) and isinstance(n.value, ast.Call) and unparse(n.value.func).endswith("enable_extensions.add"))
        if save is not None and addst is not None:
            add("c15-figure-md-copy-dropped", "C15.R2", f, splice(f.module.src, save.value, unparse(save.value.args[0])), "enable_extensions")
            ind2 = indent_of(f, addst)
            add("c15-figure-md-save-after-mutation", "C15.R2", f, _multi_splice(f.module.src, [(save, "pass"), (addst, _seg(f, addst) + "\n" + ind2 + _seg(f, save))]), "enable_extensions")
    f = base.func("DocutilsRenderer.run_directive")
    add("c15-module-global-written-in-render", "C15.R1", f, _prepend_stmt(f, "_SEEN_DIRECTIVES.add(name)") + "\n_SEEN_DIRECTIVES: set = set()\n", "_SEEN_DIRECTIVES")
    f = base.func("DocutilsRenderer._render_finalise")
    st = find_stmt(f, lambda n: isinstance(n, ast.Assign) and "myst_slugs" in unparse(n.targets[0]) and "metadata" in unparse(n.targets[0]))
    if st is not None:
        add("c15-env-write-not-docname-keyed", "C15.R1", f, splice(f.module.src, st.targets[0], "self.sphinx_env.myst_slugs"), "myst_slugs")
    f = corpus.func("config.main:merge_file_level")
    st = find_stmt(f, lambda n: isinstance(n, ast.Assign) and unparse(n.value) == "config.copy()")
    if st is not None:
        add("c15-merge-file-level-without-copy", "C15.R1", f, splice(f.module.src, st.value, "config"), "setattr(new", True)
    sx = corpus.mod("mdit_to_docutils.sphinx_")
    f = sx.func("SphinxRenderer._random_label")
    add("c15-class-level-list-mutated", "C15.R1", f, splice(sx.src, f.node, "_labels: list[str] = []\n\n    def _random_label(self) -> str:\n        self._labels.append('x')\n        return str(uuid4())"), "_labels")
    f = sx.func("SphinxRenderer.add_math_target")
    c = find_node(f, lambda n: isinstance(n, ast.Call) and unparse(n.func).endswith("note_equation"))
    if c is not None:
        add("c15-equation-not-keyed-by-docname", "C15.R1", f, splice(sx.src, c.args[0], "''"), "note_equation")
    # --- R2 ---------------------------------------------------------------------------------
    mk = corpus.mod("mocking")
    f = mk.func("MockIncludeDirective.run")
    st = find_stmt(f, lambda n: isinstance(n, ast.Assign) and unparse(n.targets[0]) == "self.renderer.reporter.source" and isinstance(n.value, ast.Name) and _in_finally(n) is not None)
    if st is not None:
        add("c15-include-restore-wrong-variable", "C15.R2", f, splice(mk.src, st.value, "source"), "reporter.source")
    f = base.func("DocutilsRenderer.render_substitution")
    c = find_node(f, lambda n: isinstance(n, ast.Call) and unparse(n.func).endswith("difference_update"))
    if c is not None:
        add("c15-substitution-undo-wrong-argument", "C15.R2", f, splice(base.src, c.args[0], "cyclic"), "difference_update")
    # --- R3 ---------------------------------------------------------------------------------
    inv = corpus.mod("inventory")
    f = inv.func("fetch_inventory")
    add("c15-lru-cache-on-fetch-inventory", "C15.R3", f, splice(inv.src, f.node, "@functools.lru_cache(maxsize=8)\n" + _seg(f, f.node)), "fetch_inventory")
    f = inv.func("_create_regex")
    c = find_node(f, lambda n: isinstance(n, ast.Constant) and n.value == ".*")
    if c is not None:
        add("c15-cached-function-reads-mutable-global", "C15.R3", f, splice(inv.src, c, '_WILDCARD.get("*", ".*")') + "\n_WILDCARD: dict[str, str] = {}\n", "_WILDCARD")
    # --- R4 ---------------------------------------------------------------------------------
    f = corpus.func("parsers.sphinx_:MystParser.parse")
    st = find_stmt(f, lambda n: isinstance(n, ast.Assign) and isinstance(n.value, ast.Call) and dotted(n.value.func) == "create_md_parser")
    if st is not None:
        add("c15-parser-kept-on-class", "C15.R4", f, splice(f.module.src, st, "parser = MystParser._md = " + _seg(f, st.value)), "create_md_parser", True)
    md = corpus.mod("parsers.mdit")
    f = md.func("create_md_parser")
    st = find_stmt(f, lambda n: isinstance(n, ast.Assign) and unparse(n.targets[0]) == "md" and any(isinstance(g_, ast.If) and unparse(g_.test) == "config.commonmark_only" for g_ in ancestors(n)))
    if st is not None:
        add("c15-shared-markdownit-instance", "C15.R4", f, splice(md.src, st.value, "_BASE.use(wordcount_plugin, per_minute=config.words_per_minute)") + '\n_BASE = MarkdownIt("commonmark")\n', "create_md_parser")
    # --- R5 ---------------------------------------------------------------------------------
    su = base.func("DocutilsRenderer.setup_render")
    ini = base.func("DocutilsRenderer.__init__")
    st = find_stmt(su, lambda n: isinstance(n, (ast.Assign, ast.AnnAssign)) and unparse(n.targets[0] if isinstance(n, ast.Assign) else n.target) == "self._heading_slugs")
    if st is not None:
        last = ini.node.body[-1]
        add("c15-heading-slugs-reset-moved-to-init", "C15.R5", su, _multi_splice(base.src, [(st, "pass"), (last, _seg(ini, last) + "\n" + indent_of(ini, last) + "self._heading_slugs = {}")]), "_heading_slugs", False)
    st = find_stmt(su, lambda n: isinstance(n, (ast.Assign, ast.AnnAssign)) and unparse(n.targets[0] if isinstance(n, ast.Assign) else n.target) == "self._heading_offset")
    if st is not None:
        ind = indent_of(su, st)
        add("c15-heading-offset-reset-conditional", "C15.R5", su, splice(base.src, st, 'if not hasattr(self, "_heading_offset"):\n' + ind + "    self._heading_offset = 0"), "_heading_offset")
    f = base.func("DocutilsRenderer.render_heading")
    add("c15-new-renderer-attribute-not-reset", "C15.R5", f, _prepend_stmt(f, 'self._n_headings = getattr(self, "_n_headings", 0) + 1'), "_n_headings")
    # --- R7 ---------------------------------------------------------------------------------
    f = sx.func("SphinxRenderer.add_math_target")
    c = find_node(f, lambda n: isinstance(n, ast.Call) and unparse(n.func).endswith(".format") and "equation" in unparse(n))
    if c is not None and c.args:
        add("c15-object-id-in-equation-id", "C15.R7", f, splice(sx.src, c.args[0], "id(node)"), "id(node)")
    f = sx.func("SphinxRenderer.render_math_block_label")
    st = find_stmt(f, lambda n: isinstance(n, ast.Assign) and unparse(n.targets[0]) == "label")
    if st is not None:
        add("c15-uuid-fallback-label", "C15.R7", f, splice(sx.src, st, "import uuid\n" + indent_of(f, st) + "label = " + unparse(st.value) + " or str(uuid.uuid4())"), "render_math_block_label")
    else:
        out.append(("c15-uuid-fallback-label", "label assignment in render_math_block_label not found"))
    # --- classes of edits found by the seeded defects ------------------------------------------
    # (a) temporary config mutation through an alias, undone by an inverse operation instead of a restore
    f = corpus.func("sphinx_ext.directives:FigureMarkdown.run")
    tr = find_stmt(f, lambda n: isinstance(n, ast.Try) and n.finalbody)
    save = find_stmt(f, lambda n: isinstance(n, ast.Assign) and isinstance(n.value, ast.Call) and dotted(n.value.func) == "copy")
    addst = find_stmt(f, lambda n: isinstance(n, ast.Expr) and isinstance(n.value, ast.Call) and unparse(n.value.func).endswith("enable_extensions.add"))
    if tr is not None and save is not None and addst is not None and isinstance(save.targets[0], ast.Name):
        nm = save.targets[0].id
        add(
            "c15-config-set-mutated-through-alias-and-discarded",
            "C15.R1",
            f,
            _multi_splice(f.module.src, [(save.value, unparse(save.value.args[0])), (addst, f"{nm}.add('html_image')"), (tr.finalbody[0], f"{nm}.discard('html_image')")]),
            "discard",
        )
    else:
        out.append(("c15-config-set-mutated-through-alias-and-discarded", "figure-md save/add/restore shape not found"))
    # (b) hand-made module-level cache in a function the renderer calls (keyed on fewer inputs than it reads)
    inv = corpus.mod("inventory")
    f = inv.func("fetch_inventory")
    rets = sorted([n for n in walk_local(f.node) if isinstance(n, ast.Return) and n.value is not None], key=lambda n: n.lineno)
    if rets:
        edits = [(r.value, f"_FETCHED.setdefault(uri, {_seg(f, r.value)})") for r in rets]
        add("c15-module-level-inventory-cache", "C15.R1", f, _multi_splice(inv.src, edits) + "\n_FETCHED: dict = {}\n", "_FETCHED")
        add("c15-module-level-inventory-cache-subscript-store", "C15.R1", f, _prepend_stmt(f, "_LAST_FETCH[0] = uri") + "\n_LAST_FETCH: list = [None]\n", "_LAST_FETCH")
    # (c) validation (normalising validators store on the instance) run against the shared config instead of the copy
    f = corpus.func("config.main:merge_file_level")
    c = find_node(f, lambda n: isinstance(n, ast.Call) and dotted(n.func) == "validate_field" and n.args and isinstance(n.args[0], ast.Name))
    cp = find_stmt(f, lambda n: isinstance(n, ast.Assign) and unparse(n.value) == "config.copy()")
    if c is not None and cp is not None and c.args[0].id == cp.targets[0].id:
        add("c15-validate-against-global-config", "C15.R1", f, splice(f.module.src, c.args[0], "config"), "setattr(inst")
    else:
        out.append(("c15-validate-against-global-config", "validate_field(<copy>, ...) call in merge_file_level not found"))
    # --- repaired defects, each fix reverted ----------------------------------------------------
    f = base.func("DocutilsRenderer.run_directive")
    st = find_stmt(f, lambda n: isinstance(n, ast.Assign) and unparse(n.targets[0]) == "directive_class" and isinstance(n.value, ast.Call) and dotted(n.value.func) == "type")
    if st is not None:
        ind = indent_of(f, st)
        add(
            "c15-revert-1895664-include-option-spec-extended-in-place",
            "C15.R1",
            f,
            splice(base.src, st, ('directive_class.option_spec["relative-images"] = directives.flag\n' + ind + 'directive_class.option_spec["relative-docs"] = directives.path\n' + ind + 'directive_class.option_spec["heading-offset"] = directives.nonnegative_int')),
            "option_spec",
            True,
        )
    else:
        out.append(("c15-revert-1895664-include-option-spec-extended-in-place", "per-call Include subclass in run_directive not found"))
    f = corpus.func("parsers.docutils_:Parser.parse")
    st = find_stmt(f, lambda n: isinstance(n, ast.Expr) and isinstance(n.value, ast.Call) and unparse(n.value.func).endswith("_roles.pop"))
    if st is not None:
        add("c15-revert-f7c70e9-default-role-not-reset", "C15.R1", f, splice(f.module.src, st, "pass"), "reset after render")
    else:
        out.append(("c15-revert-f7c70e9-default-role-not-reset", "roles._roles.pop('', None) in Parser.parse not found"))
    f = sx.func("SphinxRenderer._random_label")
    body = [x for x in f.node.body if not (isinstance(x, ast.Expr) and isinstance(x.value, ast.Constant))]
    if body:
        ind = indent_of(f, body[0])
        add("c15-revert-6901ce7-uuid4-equation-label", "C15.R7", f, _multi_splice(sx.src, [(body[0], "from uuid import uuid4\n\n" + ind + "return str(uuid4())")] + [(x, "pass") for x in body[1:-1]] + ([(body[-1], "pass")] if len(body) > 1 else [])), "_random_label")
    # --- round-2 seed classes -----------------------------------------------------------------------
    cm = corpus.mod("config.main")
    # R8: the normalising validator no longer gives every instance its own object
    f = cm.func("check_extensions")
    st = find_stmt(f, lambda n: isinstance(n, ast.Expr) and isinstance(n.value, ast.Call) and dotted(n.value.func) == "setattr")
    if st is not None:
        ind = indent_of(f, st)
        add("c15-validator-copies-only-non-sets", "C15.R8", f, splice(cm.src, st, "if not isinstance(value, set):\n" + ind + "    " + _seg(f, st)), "enable_extensions")
    else:
        out.append(("c15-validator-copies-only-non-sets", "setattr in check_extensions not found"))
    # the value that is stored must be built anew whatever was passed in
    mk = find_stmt(f, lambda n: isinstance(n, ast.Assign) and isinstance(n.targets[0], ast.Name) and isinstance(n.value, ast.Call) and dotted(n.value.func) in ("set", "frozenset"))
    if mk is not None and st is not None and unparse(st.value.args[2]) == mk.targets[0].id:
        nm = mk.targets[0].id
        add("c15-validator-stores-given-set", "C15.R8", f, splice(cm.src, mk.value, f"({nm} if isinstance({nm}, set) else {_seg(f, mk.value)})"), "enable_extensions")
        add("c15-validator-normalised-copy-not-stored", "C15.R8", f, splice(cm.src, mk.targets[0], "checked"), "enable_extensions")
    elif st is not None and isinstance(st.value.args[2], ast.Call):
        add("c15-validator-stores-given-set", "C15.R8", f, splice(cm.src, st.value.args[2], "(value if isinstance(value, set) else set(value))"), "enable_extensions")
    else:
        out.append(("c15-validator-stores-given-set", "fresh set construction in check_extensions not found"))
    f = corpus.func("sphinx_ext.directives:FigureMarkdown.run")
    addst = find_stmt(f, lambda n: isinstance(n, ast.Expr) and isinstance(n.value, ast.Call) and unparse(n.value.func).endswith("enable_extensions.add"))
    if addst is not None:
        recv = unparse(addst.value.func.value.value)  # <config expr>
        add("c15-unowned-field-mutated-in-place", "C15.R8", f, splice(f.module.src, addst, _seg(f, addst) + "\n" + indent_of(f, addst) + f"{recv}.disable_syntax.append('html_block')"), "disable_syntax")
    # R9: env.myst_config not refreshed on every build
    sm = corpus.mod("sphinx_ext.main")
    f = sm.func("create_myst_config")
    add("c15-config-kept-when-env-already-has-one", "C15.R9", f, _prepend_stmt(f, 'if hasattr(app.env, "myst_config"):\n        return'), "create_myst_config")
    h = find_node(f, lambda n: isinstance(n, ast.ExceptHandler))
    if h is not None:
        stx = [x for x in h.body if isinstance(x, ast.Assign) and unparse(x.targets[0]).endswith("env.myst_config")]
        if stx:
            add("c15-invalid-config-keeps-previous-build-config", "C15.R9", f, splice(sm.src, stx[0], "pass"), "create_myst_config")
    f = sm.func("setup_sphinx")
    st = find_stmt(f, lambda n: isinstance(n, ast.Expr) and isinstance(n.value, ast.Call) and unparse(n.value.func) == "app.connect" and len(n.value.args) == 2 and unparse(n.value.args[1]) == "create_myst_config")
    if st is not None:
        add("c15-config-handler-not-on-builder-inited", "C15.R9", f, splice(sm.src, st.value.args[0], "'env-before-read-docs'"), "myst_config")
    # R1: the settings object shared by all documents of a Sphinx build
    f = base.func("DocutilsRenderer._render_finalise")
    add("c15-settings-written-only-when-unset", "C15.R1", f, _prepend_stmt(f, 'if not getattr(self.document.settings, "myst_last_footnote_mode", None):\n            self.document.settings.myst_last_footnote_mode = self.md_config.footnote_sort'), "myst_last_footnote_mode")
    add("c15-settings-value-prefers-previous", "C15.R1", f, _prepend_stmt(f, 'self.document.settings.myst_last_footnote_mode = getattr(self.document.settings, "myst_last_footnote_mode", None) or self.md_config.footnote_sort'), "myst_last_footnote_mode")
    # R1: ad-hoc env mapping (keyed by docname, but not one Sphinx merges from parallel workers)
    st = find_stmt(f, lambda n: isinstance(n, ast.Assign) and "myst_slugs" in unparse(n.targets[0]) and "metadata" in unparse(n.targets[0]))
    if st is not None:
        add("c15-adhoc-env-mapping-keyed-by-docname", "C15.R1", f, splice(base.src, st.targets[0], "self.sphinx_env.myst_slugs[self.sphinx_env.docname]"), "myst_slugs")
    # R1: class-level memo on the reference resolver (post-transform)
    rr = corpus.mod("sphinx_ext.myst_refs")
    f = rr.func("MystReferenceResolver.log_warning")
    src2 = _prepend_stmt(f, "self._seen_targets.add(str(target))")
    if "    def log_warning(" in src2:
        add("c15-class-level-memo-on-resolver", "C15.R1", f, src2.replace("    def log_warning(", "    _seen_targets: set[str] = set()\n\n    def log_warning(", 1), "_seen_targets")
    # R4: parsers handed out from a module-level store by a helper both front ends call
    md = corpus.mod("parsers.mdit")
    dp = corpus.mod("parsers.docutils_")
    pf = dp.func("Parser.parse")
    c = find_node(pf, lambda n: isinstance(n, ast.Call) and dotted(n.func) == "create_md_parser")
    if c is not None:
        helper = (
            "\n\n_PARSERS: dict = {}\n\n\ndef get_md_parser(config, renderer):\n"
            "    key = (renderer, config.commonmark_only, config.gfm_only, tuple(sorted(config.enable_extensions)))\n"
            "    if key not in _PARSERS:\n        _PARSERS[key] = create_md_parser(config, renderer)\n"
            "    _PARSERS[key].options['myst_config'] = config\n    return _PARSERS[key]\n"
        )
        new_dp = splice(dp.src, c.func, "get_md_parser").replace("from myst_parser.parsers.mdit import create_md_parser", "from myst_parser.parsers.mdit import create_md_parser, get_md_parser", 1)
        out.append(Mutant("c15-parser-cache-behind-helper", "C15.R4", md.rel, md.src + helper, expect="Parser.parse", more={dp.rel: new_dp}))
    # --- round-3 seed classes -----------------------------------------------------------------------
    # R10: a config-owned / module-level list stored by reference into a node slot that is extended in place
    f = base.func("DocutilsRenderer.render_link_url")
    st = find_stmt(f, lambda n: isinstance(n, ast.Expr) and isinstance(n.value, ast.Call) and unparse(n.value.func) == "ref_node['classes'].extend" and "conversion" in unparse(n.value.args[0]))
    if st is not None:
        add("c15-config-list-aliased-into-node-classes", "C15.R10", f, splice(base.src, st, "ref_node['classes'] = " + _seg(f, st.value.args[0])), "slot 'classes'")
    else:
        out.append(("c15-config-list-aliased-into-node-classes", "ref_node['classes'].extend(conversion[...]) not found"))
    st = find_stmt(f, lambda n: isinstance(n, ast.Assign) and unparse(n.targets[0]) == "ref_node" and isinstance(n.value, ast.Call))
    if st is not None:
        add("c15-module-level-list-aliased-into-node-classes", "C15.R10", f, splice(base.src, st, _seg(f, st) + "\n" + indent_of(f, st) + "ref_node['classes'] = _EXTERNAL_LINK_CLASSES") + "\n_EXTERNAL_LINK_CLASSES: list[str] = ['reference', 'external']\n", "_EXTERNAL_LINK_CLASSES")
        add("c15-config-field-aliased-into-node-names", "C15.R10", f, splice(base.src, st, _seg(f, st) + "\n" + indent_of(f, st) + "ref_node['names'] = self.md_config.disable_syntax"), "slot 'names'")
    # R1: process-wide counters / iterators advanced during a parse
    f = sx.func("SphinxRenderer._random_label")
    c = find_node(f, lambda n: isinstance(n, ast.Call) and unparse(n.func).endswith("new_serialno"))
    if c is not None:
        add("c15-class-level-counter-for-labels", "C15.R1", f, splice(sx.src, c, "next(self._amsmath_serial)").replace("    def _random_label(", "    _amsmath_serial = itertools.count()\n\n    def _random_label(", 1).replace("from __future__ import annotations\n", "from __future__ import annotations\n\nimport itertools\n", 1), "_amsmath_serial")
        add("c15-module-level-counter-for-labels", "C15.R1", f, splice(sx.src, c, "next(_AMSMATH_SERIAL)") + "\nimport itertools\n\n_AMSMATH_SERIAL = itertools.count()\n", "_AMSMATH_SERIAL")
    else:
        out.append(("c15-class-level-counter-for-labels", "new_serialno call in _random_label not found"))
    # R1: default role restored only when one existed before (the unconditional reset is lost)
    f = corpus.func("parsers.docutils_:Parser.parse")
    st = find_stmt(f, lambda n: isinstance(n, ast.Expr) and isinstance(n.value, ast.Call) and unparse(n.value.func).endswith("_roles.pop"))
    if st is not None:
        add("c15-default-role-reset-only-when-one-existed-before", "C15.R1", f, splice(f.module.src, st, "if _had_default_role:\n" + indent_of(f, st) + "    " + _seg(f, st)).replace("        self.setup_parse(inputstring, document)", "        from docutils.parsers.rst import roles as _roles0\n\n        _had_default_role = '' in _roles0._roles\n        self.setup_parse(inputstring, document)", 1), "reset after render")
    # --- round-4 class: a cache that hands out one stateful object to every parse ---------------------
    ph = corpus.mod("parsers.parse_html")
    f = ph.func("tokenize_html")
    c = find_node(f, lambda n: isinstance(n, ast.Call) and dotted(n.func) == "HtmlToAst")
    if c is not None:
        helper = "\n\nfrom functools import lru_cache\n\n\n@lru_cache(maxsize=8)\ndef _get_tokenizer(name: str, convert_charrefs: bool) -> HtmlToAst:\n    return HtmlToAst(name, convert_charrefs=convert_charrefs)\n"
        add("c15-cached-html-tokenizer-instance", "C15.R3", f, splice(ph.src, c, "_get_tokenizer(name, convert_charrefs)") + helper, "_get_tokenizer")
    else:
        out.append(("c15-cached-html-tokenizer-instance", "HtmlToAst(...) construction in tokenize_html not found"))
    f = base.func("DocutilsRenderer.render_substitution")
    c = find_node(f, lambda n: isinstance(n, ast.Call) and (dotted(n.func) or "").startswith("jinja2.") and (dotted(n.func) or "").endswith("Environment"))
    if c is not None:
        helper = "\n\nimport functools\n\n\n@functools.lru_cache(maxsize=None)\ndef _substitution_env():\n    return " + _seg(f, c) + "\n"
        add("c15-cached-jinja-environment", "C15.R3", f, splice(base.src, c, "_substitution_env()") + helper, "_substitution_env")
    else:
        out.append(("c15-cached-jinja-environment", "jinja2 ...Environment(...) in render_substitution not found"))
    inv = corpus.mod("inventory")
    f = inv.func("filter_string")
    rl = find_node(f, lambda n: isinstance(n, ast.Return) and n.value is not None)
    if rl is not None:
        add("c15-cached-function-returns-its-working-list", "C15.R3", f, _multi_splice(inv.src, [(f.node, "@functools.lru_cache(maxsize=64)\n" + _seg(f, f.node).replace(_seg(f, rl), "return str_items", 1))]), "filter_string")
    # --- round-5 classes ---------------------------------------------------------------------------------
    # R1: one stateful package object created at import time and used by every parse
    h2n = corpus.mod("mdit_to_docutils.html_to_nodes")
    f, c = None, None
    for cand in h2n.functions.values():
        if not cand.is_lambda:
            c = find_node(cand, lambda n: isinstance(n, ast.Call) and dotted(n.func) == "tokenize_html")
            if c is not None:
                f = cand
                break
    if f is None:
        f = h2n.func("html_to_nodes")
    if c is not None:
        add("c15-module-level-html-tokenizer-shared", "C15.R1", f, splice(h2n.src, c, "_HTML_TOKENIZER.feed(" + ", ".join(_seg(f, a) for a in c.args) + ")") + "\n\nfrom myst_parser.parsers.parse_html import HtmlToAst\n\n_HTML_TOKENIZER = HtmlToAst()\n", "_HTML_TOKENIZER")
    else:
        out.append(("c15-module-level-html-tokenizer-shared", "tokenize_html(...) call in html_to_nodes not found"))
    ph = corpus.mod("parsers.parse_html")
    f = ph.func("tokenize_html")
    st = find_stmt(f, lambda n: isinstance(n, ast.Assign) and isinstance(n.value, ast.Call) and dotted(n.value.func) == "HtmlToAst")
    if st is not None and isinstance(st.targets[0], ast.Name):
        add("c15-module-level-parser-in-tokenize-html", "C15.R1", f, splice(ph.src, st, st.targets[0].id + " = _SHARED_PARSER") + "\n\n_SHARED_PARSER = HtmlToAst()\n", "_SHARED_PARSER")
    # R11: messages of a (memoised) registry lookup used although the lookup succeeded
    f = base.func("DocutilsRenderer.render_myst_role")
    st = find_stmt(f, lambda n: isinstance(n, ast.AugAssign) and unparse(n.target) == "self.current_node" and "messages2" in unparse(n.value))
    if st is not None:
        add("c15-role-lookup-messages-kept-on-success", "C15.R11", f, splice(base.src, st.value, "messages + " + _seg(f, st.value)), "role() lookup")
    else:
        out.append(("c15-role-lookup-messages-kept-on-success", "self.current_node += _nodes + messages2 not found"))
    f = base.func("DocutilsRenderer.run_directive")
    rets = sorted([n for n in walk_local(f.node, into_lambdas=False) if isinstance(n, ast.Return) and isinstance(n.value, ast.Name)], key=lambda n: n.lineno)
    if rets:
        add("c15-directive-lookup-messages-kept-on-success", "C15.R11", f, splice(base.src, rets[-1].value, "messages + " + rets[-1].value.id), "directive() lookup")
    # R12: once-only emission
    w = corpus.mod("warnings_")
    f = w.func("create_warning")
    c = find_node(f, lambda n: isinstance(n, ast.Call) and isinstance(n.func, ast.Attribute) and n.func.attr == "warning" and any(k.arg == "type" for k in n.keywords))
    if c is not None:
        add("c15-sphinx-warning-logged-once", "C15.R12", f, splice(w.src, c.keywords[-1].value, _seg(f, c.keywords[-1].value) + ", once=True"), "create_warning")
    else:
        out.append(("c15-sphinx-warning-logged-once", "Sphinx logger.warning call in create_warning not found"))
    rr = corpus.mod("sphinx_ext.myst_refs")
    f = rr.func("MystReferenceResolver.resolve_myst_ref_any")
    c = find_node(f, lambda n: isinstance(n, ast.Call) and unparse(n.func) == "self.log_warning" and any("XREF_AMBIGUOUS" in unparse(a) for a in n.args))
    if c is not None:
        add("c15-ambiguous-reference-warned-once", "C15.R12", f, splice(rr.src, c.args[-1], _seg(f, c.args[-1]) + ", once=True"), "resolve_myst_ref_any")
    # --- round-6 classes ---------------------------------------------------------------------------------
    cm = corpus.mod("config.main")
    f = cm.func("MdParserConfig.copy")
    if "import dataclasses as dc\n" in cm.src:
        add("c15-config-copy-shallow-without-kwargs", "C15.R8", f, _prepend_stmt(f, "if not kwargs:\n            return copy.copy(self)").replace("import dataclasses as dc\n", "import copy\nimport dataclasses as dc\n", 1), "enable_extensions")
    else:
        out.append(("c15-config-copy-shallow-without-kwargs", "import dataclasses as dc not found in config/main.py"))
    add("c15-config-copy-returns-self-without-kwargs", "C15.R1", f, _prepend_stmt(f, "if not kwargs:\n            return self"), "MdParserConfig.copy")
    f = base.func("DocutilsRenderer._render_finalise")
    add("c15-config-field-name-stored-on-settings", "C15.R1", f, _prepend_stmt(f, "self.document.settings.myst_heading_anchors = self.md_config.heading_anchors"), "myst_heading_anchors")
    # --- round 10: repaired live defects, each fix reverted --------------------------------------------
    cm = corpus.mod("config.main")
    f = cm.func("check_extensions")
    c = find_node(f, lambda n: isinstance(n, ast.Call) and dotted(n.func) == "sorted")
    if c is not None:
        add("c15-revert-157a6d4-unknown-extensions-listed-in-set-order", "C15.R13", f, splice(cm.src, c, _seg(f, c.args[0])), "check_extensions")
    else:
        out.append(("c15-revert-157a6d4-unknown-extensions-listed-in-set-order", "sorted(...) in check_extensions not found"))
    f = base.func("DocutilsRenderer.render_substitution")
    c = find_node(f, lambda n: isinstance(n, ast.Call) and dotted(n.func) == "sorted" and n.args and unparse(n.args[0]) == "cyclic")
    if c is not None:
        add("c15-revert-157a6d4-circular-names-listed-in-set-order", "C15.R13", f, splice(base.src, c, "cyclic"), "render_substitution")
    else:
        out.append(("c15-revert-157a6d4-circular-names-listed-in-set-order", "sorted(cyclic) in render_substitution not found"))
    su = base.func("DocutilsRenderer.setup_render")
    st = find_stmt(su, lambda n: isinstance(n, (ast.Assign, ast.AnnAssign)) and unparse(n.targets[0] if isinstance(n, ast.Assign) else n.target) == "self._inventories")
    if st is not None:
        add("c15-revert-a2a9a1a-inventories-not-reset-per-render", "C15.R5", su, splice(base.src, st, "pass"), "_inventories")
    else:
        out.append(("c15-revert-a2a9a1a-inventories-not-reset-per-render", "self._inventories reset in setup_render not found"))
    f = base.func("DocutilsRenderer.render_substitution")
    d_ = find_node(f, lambda n: isinstance(n, ast.Dict) and n.keys == [None] and "_substitutions" in unparse(n.values[0]))
    if d_ is not None:
        add("c15-revert-b9c046f-configured-substitutions-passed-by-reference", "C15.R14", f, splice(base.src, d_.values[0], "self.md_config.substitutions"), "render_substitution")
    else:
        out.append(("c15-revert-b9c046f-configured-substitutions-passed-by-reference", "{**self._substitutions} in render_substitution not found"))
    c = find_node(f, lambda n: isinstance(n, ast.Call) and (dotted(n.func) or "").endswith("deepcopy"))
    if c is not None:
        add("c15-substitutions-only-shallow-copied", "C15.R14", f, splice(base.src, c.func, "dict"), "render_substitution")
    # --- round 12: the obligations of the recent fixes, weakened without reverting them -------------------
    # R8: a second config object made by a shallow copy outside MdParserConfig.copy()
    cm = corpus.mod("config.main")
    f = cm.func("merge_file_level")
    st = find_stmt(f, lambda n: isinstance(n, ast.Assign) and unparse(n.value) == "config.copy()")
    if st is not None and "import dataclasses as dc\n" in cm.src:
        add("c15-file-level-config-made-by-shallow-copy", "C15.R8", f, splice(cm.src, st.value, "shallow_copy(config)").replace("import dataclasses as dc\n", "import dataclasses as dc\nfrom copy import copy as shallow_copy\n", 1), "enable_extensions")
    else:
        out.append(("c15-file-level-config-made-by-shallow-copy", "new = config.copy() in merge_file_level not found"))
    sp = corpus.func("parsers.sphinx_:MystParser.parse")
    st = find_stmt(sp, lambda n: isinstance(n, ast.Assign) and isinstance(n.value, ast.Call) and dotted(n.value.func) == "merge_file_level")
    if st is not None:
        add("c15-global-config-shallow-copied-in-parse", "C15.R8", sp, splice(sp.module.src, st, _seg(sp, st) + "\n" + indent_of(sp, st) + "config = __import__('copy').copy(config)").replace("config = __import__('copy').copy(config)", "import copy as _copy\n" + indent_of(sp, st) + "config = _copy.copy(config)", 1), "enable_extensions")
    # R14: the private substitution context copied only one level deep
    f = base.func("DocutilsRenderer.render_substitution")
    tr = find_stmt(f, lambda n: isinstance(n, ast.Try) and any(isinstance(c_, ast.Call) and (dotted(c_.func) or "").endswith("deepcopy") for b_ in n.body for c_ in ast.walk(b_)))
    if tr is not None:
        ind = indent_of(f, tr)
        body = (
            "self._substitutions = {}\n" + ind + "for key, value in self.md_config.substitutions.items():\n" + ind + "    try:\n" + ind + "        self._substitutions[key] = dict(value)\n"
            + ind + "    except Exception:\n" + ind + "        self._substitutions[key] = value"
        )
        add("c15-substitution-values-copied-one-level-only", "C15.R14", f, splice(base.src, tr, body), "render_substitution")
        add("c15-substitution-values-taken-item-by-item-by-reference", "C15.R14", f, splice(base.src, tr, "self._substitutions = {}\n" + ind + "for key, value in self.md_config.substitutions.items():\n" + ind + "    self._substitutions[key] = value"), "render_substitution")
    else:
        out.append(("c15-substitution-values-copied-one-level-only", "try: deepcopy(...) in render_substitution not found"))
    # --- round 14: obligations of the second-hunt repairs --------------------------------------------------
    # 7852c2b: the default-role reset must also run when the render raises (finally around the render)
    f = corpus.func("parsers.docutils_:Parser.parse")
    tr = find_stmt(f, lambda n: isinstance(n, ast.Try) and n.finalbody and any("_roles" in unparse(x) for x in n.finalbody) and any("render" in unparse(b_) for b_ in n.body))
    if tr is not None:
        ind = indent_of(f, tr)
        seq = ("\n" + ind).join(_seg(f, x) for x in tr.body + tr.finalbody)
        add("c15-revert-7852c2b-default-role-reset-skipped-when-render-raises", "C15.R1", f, splice(f.module.src, tr, seq), "reset after render")
        body = ("\n" + ind + "    ").join(_seg(f, x) for x in tr.body)
        fin = ("\n" + ind + "    ").join(_seg(f, x) for x in tr.finalbody)
        add("c15-default-role-reset-only-after-a-successful-render", "C15.R1", f, splice(f.module.src, tr, "try:\n" + ind + "    " + body + "\n" + ind + "except Exception:\n" + ind + "    raise\n" + ind + "else:\n" + ind + "    " + fin), "reset after render")
    else:
        out.append(("c15-revert-7852c2b-default-role-reset-skipped-when-render-raises", "try/finally with the roles reset around parser.render not found"))
    # 03606c8: containers from the user's configuration are copied before MyST writes its values into them
    mj = corpus.mod("sphinx_ext.mathjax")
    f = mj.func("override_mathjax")
    st = find_stmt(f, lambda n: isinstance(n, ast.Assign) and unparse(n.targets[0]).endswith("config.mathjax3_config") and isinstance(n.value, ast.Call) and dotted(n.value.func) == "dict")
    if st is not None and st.value.args:
        add("c15-revert-03606c8-user-mathjax-config-written-in-place", "C15.R15", f, splice(mj.src, st.value, _seg(f, st.value.args[0])), "mathjax3_config")
    else:
        out.append(("c15-revert-03606c8-user-mathjax-config-written-in-place", "app.config.mathjax3_config = dict(...) not found"))
    st = find_stmt(f, lambda n: isinstance(n, ast.Assign) and isinstance(n.targets[0], ast.Subscript) and unparse(n.targets[0].value).endswith("config.mathjax3_config") and isinstance(n.value, ast.Call) and dotted(n.value.func) == "dict")
    if st is not None:
        add("c15-user-mathjax-options-dict-not-copied", "C15.R15", f, splice(mj.src, st, f"{unparse(st.targets[0].value)}.setdefault({unparse(st.targets[0].slice)}, {{}})"), "processHtmlClass")
    else:
        out.append(("c15-user-mathjax-options-dict-not-copied", "app.config.mathjax3_config['options'] = dict(...) not found"))
    # --- round 15: protocol methods of the shared config must not write the live object --------------------
    cm = corpus.mod("config.main")
    if "MdParserConfig.__getstate__" in cm.functions:
        f = cm.func("MdParserConfig.__getstate__")
        c = find_node(f, lambda n: isinstance(n, ast.Call) and isinstance(n.func, ast.Attribute) and n.func.attr == "copy" and unparse(n.func.value) == "self.__dict__")
        if c is not None:
            add("c15-getstate-edits-the-live-config-dict", "C15.R1", f, splice(cm.src, c, "self.__dict__"), "__getstate__")
        else:
            out.append(("c15-getstate-edits-the-live-config-dict", "self.__dict__.copy() in __getstate__ not found"))
        st = find_stmt(f, lambda n: isinstance(n, ast.Assign) and isinstance(n.targets[0], ast.Subscript) and isinstance(n.value, ast.Constant) and n.value.value is None and isinstance(n.targets[0].slice, ast.Constant))
        if st is not None:
            add("c15-getstate-clears-the-field-on-the-live-config", "C15.R1", f, splice(cm.src, st, _seg(f, st) + "\n" + indent_of(f, st) + f"self.{st.targets[0].slice.value} = None"), "__getstate__")
    else:
        out.append(("c15-getstate-edits-the-live-config-dict", "MdParserConfig.__getstate__ not found"))
    return out
