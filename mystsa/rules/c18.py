"""C18 - inventory loading agrees with Sphinx and is independent of stream chunking."""

from __future__ import annotations

import ast
import re
import re._parser as _rp  # regex trees only; nothing of the repository is executed

from ..corpus import (
    AnchorMissing,
    Corpus,
    FunctionInfo,
    Unsupported,
    arg_or_kw,
    dotted,
    enclosing_function,
    kwarg,
    parent,
    short,
    splice,
    unparse,
)
from ..flow import EXIT, RAISE, facts, get_cfg
from ..mutant import Mutant
from ..report import Report
from .common import find_node, rule

PROP = "C18"
READY = False
TECHNIQUE = (
    "regex-tree equality with the Sphinx sibling; key-kind inference over the inventory dictionaries; buffer "
    "conservation (store shapes, exactly-once consumption, liveness at generator exit) over the reader's CFGs; "
    "symbolic comparison of the v1 string templates and protocol constants with Sphinx's loaders"
)

META = {
    "explanation": (
        "All rules compare MyST's inventory loader with the installed sphinx.util.inventory (parsed, never imported) or check "
        "structural necessary conditions of chunk-independence. Private helpers are followed (records built by a helper, "
        "expression helpers inlined, store helpers with local aliases and return-guards - also when they receive the parsed "
        "entry as one NamedTuple/dataclass value -, per-line parse helpers of the v1 and v2 loops inlined into an analysis view "
        "of the loaders, stores through a local alias of a sub-table), hoisted module constants are resolved. "
        "R1: the v2 entry regex (re._parser tree, group count, flags without VERBOSE), the match function and the subject "
        "normalisation (line.rstrip()) equal Sphinx's. "
        "R2 (v2 loader, from_sphinx): domain:objtype is cut at the FIRST ':' (split(':', 1) / partition; rsplit/rpartition "
        "are reported) and the cut is dominated by the ':' test (or its ValueError is caught and the entry skipped); the "
        "py:module first-wins skip exists and skips exactly when (type is py:module and already present) - truth table over "
        "type == 'py:module' / domain == 'py' / objtype == 'module' / tuple comparisons / membership in the table or a local "
        "alias of it, and the presence test reads the entry's own [domain][objtype] table (constant keys must be 'py'/'module'); "
        "the '$' shorthand is expanded to location[:-1] + name before the store (re.sub with the name as "
        "replacement template and str.replace of every '$' are reported); '' and '-' become None and every other display name "
        "is kept verbatim, decided by evaluating the predicate over abstract values ('', '-', other, equal-to-another-local); "
        "the branch facts dominating the single entry store are exactly Sphinx's skip conditions (match, ':', duplicate "
        "py:module; truthiness of a regex group that cannot be empty is vacuous; any other condition on a field is reported); "
        "the store runs at most once per line and has Sphinx's duplicate semantics (overwrite: subscript assignment/update, "
        "not setdefault); a table that is looked up again only when a remembered key changes must be keyed on everything "
        "the lookup depends on (domain and objtype). "
        "R3: kind inference (DOMAIN / OBJTYPE / NAME / DOMAIN:OBJTYPE) over every key used on the MyST-format and "
        "Sphinx-format dictionaries in _load_v1, _load_v2, from_sphinx, to_sphinx and the helpers that receive the table. "
        "R4 (InventoryFileReader): every store to the read buffer / a local line buffer (also one known under two names: a "
        "carry and the work copy `data = pending + chunk`) is an append, a prefix drop after the "
        "prefix up to the separator was consumed, or a reset after the whole buffer was consumed (or the decompressor's "
        "unconsumed_tail); consumed bytes are discarded before the next append/use; a local line buffer is empty or consumed "
        "when the generator ends; decode() is applied only to bytes ending at an entry or stream boundary (prefix up to an "
        "ASCII separator, whole buffer at eof, join of all chunks), never to a single read/decompress chunk; the eof flag is "
        "set only when a read returned b'' (a computed flag must be an emptiness test of the read result); every chunk read is "
        "appended or handed on whole; a loop over readline() ends on the eof flag, never on an empty line (readline returns '' "
        "for a blank line too); decompress(data, max_length) requires unconsumed_tail to be read again; a cached search offset "
        "(buffer.find(sep, START)) is 0 again before the next search/return once the front of the buffer was cut or the buffer "
        "emptied, and is advanced to len(buffer) only after a failed search and before anything is appended; a decision on the "
        "content of the read buffer (startswith / slice, index or length comparison, in the reader or in load/_load_v*) is taken "
        "only at eof or after a loop that reads until enough bytes or eof - the find-a-separator-else-read-more protocol and "
        "emptiness tests are exempt; the position at which a buffer is cut was found in that buffer (a position found in the "
        "newly read chunk or any other byte string is reported); a zlib.decompressobj() has its `eof` tested (raising on an unfinished stream) before "
        "the method ends normally; a method that reads does not call itself (one stack frame per read() is a RecursionError "
        "for long lines from streams that return few bytes per read). "
        "R5: header constants and their dispatch, [11:] offsets of project name/version (through helpers), how a v1 line becomes "
        "three fields (canonical form of rstrip/strip + split(sep, maxsplit) + optional [:n]: Sphinx keeps the rest of the line "
        "as the location; field-count and blank-line skips before the unpacking are accepted), the v1 "
        "type/location templates and duplicate semantics (symbolic evaluation of both v1 loop bodies on the common refinement "
        "of their path conditions, with conditional expressions, `in (..)` tests and literal lookup tables lowered to branches, "
        "so a branch taken on a translated instead of the raw type field is seen; a first-wins guard in v1 "
        "is reported), the substring/separator, type-equality and location-suffix constants of the v2 loader, the entry-line "
        "boundary set (str.splitlines; bytes.splitlines knows LF/CR/CRLF only, told apart by how the receiver was produced) for v1 and v2 entries and for the v1 project/version lines (Sphinx takes them from the same "
        "splitlines list) and are taken by position from a line source that yields every line, blank ones included (no "
        "emptiness filter in readlines or at the next() calls), the item type to_sphinx stores (the constructor and keywords Sphinx's loader uses, e.g. "
        "_InventoryItem(project_name, project_version, uri, display_name) for Sphinx >= 8.2), the base url joined into the "
        "location by to_sphinx with the function Sphinx's loader uses (posixpath.join), the location otherwise carried over "
        "verbatim by to_sphinx and from_sphinx (the '$' shorthand is file syntax the loader already resolved; any slicing, "
        "concatenation or string-rewriting call on the way is reported), and the '-' sentinel of to_sphinx / from_sphinx / Sphinx's v1 loader "
        "(from_sphinx must map exactly '' and '-' to None: lossless round trip)."
    ),
    "not_decided": (
        "equality of the loaded tables for every byte stream and every chunking as values (only the structural necessary "
        "conditions above); zlib's own behaviour; run time and memory bounds; drift of later Sphinx versions (the oracle is the "
        "installed one); the deprecated tuple interface of Sphinx's item class on the reading side (from_sphinx / "
        "filter_sphinx_inventories work either way, only a deprecation warning differs); the content of third-party streams; shapes outside the modelled subset answer ANALYSIS-ERROR (parse "
        "helpers that return something other than a NamedTuple/dataclass/tuple or None, tuple-swap stores to the buffer, method "
        "calls on the display name inside the sentinel predicate)"
    ),
    "trusted_base": [
        "CPython ast and re._parser",
        "sphinx/util/inventory.py as installed (oracle; its version is recorded in the evidence notes)",
        "the documented boundary set of str.splitlines()",
        "posixpath.join(uri, x) in Sphinx corresponds to MyST's separate base_url field",
        "the helper-inlining view preserves semantics for helpers that are pure per-line functions returning a record or None "
        "while the caller continues on None",
    ],
    "assumptions": [
        "the stream's read(n) returns b'' only at end of stream",
        "zlib.decompressobj().decompress(data) without max_length processes all of data",
        "a field comparison guarding the store can be false for some matched line (only truthiness of non-empty regex groups is recognised as vacuous)",
    ],
}

SIB = "sphinx/util/inventory.py"
SPLITLINES_BOUNDARIES = frozenset(["\n", "\r", "\r\n", "\v", "\f", "\x1c", "\x1d", "\x1e", "\x85", "\u2028", "\u2029"])


# ---------------------------------------------------------------------------
# small AST helpers


_NOCONST = object()


def _const(node):
    """Value of a literal, or of a name that denotes a module-level constant (hoisted literal) and is not
    rebound in the enclosing functions; ``_NOCONST`` otherwise."""
    if isinstance(node, ast.Constant):
        return node.value
    if isinstance(node, ast.UnaryOp) and isinstance(node.op, ast.USub):
        v = _const(node.operand)
        return -v if isinstance(v, (int, float)) and not isinstance(v, bool) else _NOCONST
    if isinstance(node, ast.Name) and isinstance(getattr(node, "ctx", None), ast.Load):
        mod = getattr(node, "_mod", None)
        if mod is not None and node.id in mod.const_nodes:
            f = enclosing_function(node)
            while f is not None:
                if node.id in f.params or any(isinstance(n, ast.Name) and n.id == node.id and isinstance(n.ctx, ast.Store) for n in f.local_nodes()):
                    return _NOCONST
                f = f.parent_func
            try:
                return mod.eval_const(mod.const_nodes[node.id])
            except Unsupported:
                return _NOCONST
    return _NOCONST


def _cstr(node) -> str | None:
    """str value of a str/bytes constant (literal or hoisted module constant)."""
    v = _const(node) if node is not None else _NOCONST
    if isinstance(v, str):
        return v
    if isinstance(v, bytes):
        return v.decode("latin1")
    return None


def _cbytes(node) -> bytes | None:
    v = _const(node) if node is not None else _NOCONST
    return v if isinstance(v, bytes) else None


def _eq_const(t):
    """(other expr, const str) for ``x == CONST`` / ``CONST == x``."""
    if isinstance(t, ast.Compare) and len(t.ops) == 1 and isinstance(t.ops[0], ast.Eq):
        a, b = t.left, t.comparators[0]
        if _cstr(b) is not None:
            return a, _cstr(b)
        if _cstr(a) is not None:
            return b, _cstr(a)
    return None


def _atoms(cfg, stmt):
    """Normalised facts holding at ``stmt``: ('in'|'eq'|'endswith'|'truth', left, right, polarity, test node)."""
    out = []
    for t, pol in cfg.guards(stmt):
        out.extend(_atom(t, pol))
    return out


def _tuple_eq_parts(t):
    """``(a, b) == (c, d)`` -> [a == c, b == d] (None when ``t`` is not such a comparison)."""
    if isinstance(t, ast.Compare) and len(t.ops) == 1 and isinstance(t.ops[0], (ast.Eq, ast.NotEq)):
        l, r = t.left, t.comparators[0]
        if isinstance(l, (ast.Tuple, ast.List)) and isinstance(r, (ast.Tuple, ast.List)) and len(l.elts) == len(r.elts) and l.elts:
            return [ast.copy_location(ast.Compare(left=a, ops=[ast.Eq()], comparators=[b]), t) for a, b in zip(l.elts, r.elts)]
    return None


def _is_table(e) -> bool:
    """``e`` denotes (part of) the objects table: an access chain over ["objects"], or a local bound to one."""
    if "objects" in unparse(e):
        return True
    if isinstance(e, ast.Name):
        f = enclosing_function(e)
        if f is not None:
            defs = [d for d in f.local_nodes() if isinstance(d, ast.Assign) and any(_is_name(t_, e.id) for t_ in d.targets)]
            return len(defs) == 1 and not isinstance(defs[0].value, ast.Name) and "objects" in unparse(defs[0].value)
    return False


def _atom(t, pol):
    parts = _tuple_eq_parts(t)
    if parts is not None:
        eq = isinstance(t.ops[0], ast.Eq)
        if pol == eq:  # the conjunction holds: every component comparison holds
            return [a for p_ in parts for a in _atom(p_, True)]
        return [("truth", t, None, pol, t)]
    if isinstance(t, ast.Compare) and len(t.ops) == 1:
        op = t.ops[0]
        l, r = t.left, t.comparators[0]
        if isinstance(op, ast.In):
            return [("in", l, r, pol, t)]
        if isinstance(op, ast.NotIn):
            return [("in", l, r, not pol, t)]
        if isinstance(op, (ast.Eq, ast.NotEq)):
            for a, b in ((l, r), (r, l)):  # x[-1:] == "$"  /  x[-1] == "$"  are suffix tests
                c = _cstr(b)
                if isinstance(a, ast.Subscript) and c:
                    sl = a.slice
                    if (isinstance(sl, ast.Slice) and sl.upper is None and sl.step is None and sl.lower is not None and _const(sl.lower) == -len(c)) or (len(c) == 1 and _const(sl) == -1):
                        return [("endswith", a.value, b, pol == isinstance(op, ast.Eq), t)]
        if isinstance(op, ast.Eq):
            return [("eq", l, r, pol, t)]
        if isinstance(op, ast.NotEq):
            return [("eq", l, r, not pol, t)]
    if isinstance(t, ast.Call) and isinstance(t.func, ast.Attribute) and t.func.attr == "endswith" and len(t.args) == 1:
        return [("endswith", t.func.value, t.args[0], pol, t)]
    return [("truth", t, None, pol, t)]


def _is_name(n, ident) -> bool:
    return isinstance(n, ast.Name) and n.id == ident


def _sub_chain(e):
    """``a[k1][k2]`` -> (a, [k1, k2])."""
    keys = []
    while isinstance(e, ast.Subscript):
        keys.append(e.slice)
        e = e.value
    return e, list(reversed(keys))


def _method_chain(e):
    """``x.a().b(1)`` -> (x, [("a", ()), ("b", ("1",))])."""
    chain = []
    while isinstance(e, ast.Call) and isinstance(e.func, ast.Attribute):
        chain.append((e.func.attr, tuple(unparse(a) for a in e.args) + tuple(f"{k.arg}={unparse(k.value)}" for k in e.keywords)))
        e = e.func.value
    return e, list(reversed(chain))


def _enclosing_for(node):
    p = parent(node)
    while p is not None and not isinstance(p, (ast.FunctionDef, ast.AsyncFunctionDef)):
        if isinstance(p, ast.For):
            return p
        p = parent(p)
    return None


# ---------------------------------------------------------------------------
# anchors (located by role, not by name where possible)


class Anchors:
    def __init__(self, corpus: Corpus):
        self.inv = inv = corpus.mod("inventory")
        self.load = load = inv.func("load")
        cfg = get_cfg(load)
        self.headers: dict[str, FunctionInfo] = {}
        for st in load.local_nodes():
            if isinstance(st, ast.Return) and isinstance(st.value, ast.Call):
                d = dotted(st.value.func)
                tgt = corpus.find_function(inv.resolve(d)) if d else None
                if tgt is None:
                    continue
                hdrs = [_eq_const(t)[1] for t, pol in cfg.guards(st) if pol and _eq_const(t) is not None]
                if len(hdrs) == 1:
                    self.headers[hdrs[0]] = tgt
        # roles by structure: the v2 loader matches a regex and unpacks m.groups(); the v1 loader splits into three fields
        v1, v2 = [], []

        def has_groups(f):
            return any(isinstance(n, ast.Call) and isinstance(n.func, ast.Attribute) and n.func.attr == "groups" for n in f.local_nodes())

        for f in self.headers.values():
            g = has_groups(f) or any(has_groups(t) for _, t in _callees(corpus, f))
            try:
                _v1_unpack(f)
                u = True
            except Unsupported:
                u = False
            if g and not u:
                v2.append(f)
            elif u and not g:
                v1.append(f)
        if (len(v1) != 1 or len(v2) != 1) and len(self.headers) == 2:
            # the entry parsing moved elsewhere: fall back on the protocol constants themselves
            v1 = [f for h, f in self.headers.items() if h.rstrip().endswith("version 1")]
            v2 = [f for h, f in self.headers.items() if h.rstrip().endswith("version 2")]
        if len(v1) != 1 or len(v2) != 1:
            raise AnchorMissing("inventory.load no longer dispatches on the two header constants to a v1 and a v2 loader")
        self.v1, self.v2 = v1[0], v2[0]
        self.from_sphinx = inv.func("from_sphinx")
        self.to_sphinx = inv.func("to_sphinx")
        # the reader class: constructed in load()
        self.reader = None
        for c in load.local_nodes():
            if isinstance(c, ast.Call) and dotted(c.func):
                ci = corpus.find_class(inv.resolve(dotted(c.func)))
                if ci is not None:
                    self.reader = ci
        if self.reader is None:
            self.reader = inv.cls("InventoryFileReader")
        # Sphinx side
        self.corpus = corpus
        self.sib = sib = corpus.sibling(SIB)

        def pick(*names):
            for n in names:
                if n in sib.functions:
                    return sib.functions[n]
            raise AnchorMissing(f"{SIB}: none of {names} found")

        self.s_v1 = pick("InventoryFile._loads_v1", "InventoryFile.load_v1")
        self.s_v2 = pick("InventoryFile._loads_v2", "InventoryFile.load_v2")
        self.s_disp = pick("InventoryFile.loads", "InventoryFile.load")
        try:
            self.sphinx_version = str(corpus.sibling("sphinx/__init__.py").const("__version__"))
        except Exception:
            self.sphinx_version = "?"


def _anchors(corpus: Corpus) -> Anchors:
    return corpus.cache("c18-anchors", lambda: Anchors(corpus))


# ---------------------------------------------------------------------------
# the entry loop of a v2 loader (MyST's or Sphinx's): regex site + group roles

RE_FUNCS = {"re.match": "match", "re.search": "search", "re.fullmatch": "fullmatch"}
ROLES = ["name", "type", "prio", "loc", "text"]


def _eval_flags(e, mod) -> int:
    if e is None:
        return 0
    if isinstance(e, ast.Constant) and isinstance(e.value, int):
        return e.value
    if isinstance(e, ast.BinOp) and isinstance(e.op, ast.BitOr):
        return _eval_flags(e.left, mod) | _eval_flags(e.right, mod)
    d = dotted(e)
    r = mod.resolve(d) if d else ""
    if r.startswith("re.") and r[3:].isupper() and hasattr(re, r[3:]):
        return int(getattr(re, r[3:]))
    raise Unsupported(f"regex flags not understood: {short(e, 40)}")


def _regex_sites(fi: FunctionInfo) -> list:
    mod = fi.module
    sites = []
    for c in fi.local_nodes():
        if not isinstance(c, ast.Call):
            continue
        d = dotted(c.func)
        r = mod.resolve(d) if d else None
        if r in RE_FUNCS:
            sites.append((RE_FUNCS[r], arg_or_kw(c, 0, "pattern"), arg_or_kw(c, 2, "flags"), arg_or_kw(c, 1, "string"), c))
        elif isinstance(c.func, ast.Attribute) and c.func.attr in ("match", "search", "fullmatch") and isinstance(c.func.value, ast.Name) and c.func.value.id in mod.const_nodes:
            comp = mod.const_nodes[c.func.value.id]
            if isinstance(comp, ast.Call) and mod.resolve(dotted(comp.func) or "") == "re.compile":
                sites.append((c.func.attr, arg_or_kw(comp, 0, "pattern"), arg_or_kw(comp, 1, "flags"), c.args[0] if c.args else None, c))
    return sites


def _bound_var(fi: FunctionInfo, call: ast.Call) -> str:
    p = parent(call)
    if isinstance(p, ast.NamedExpr) and isinstance(p.target, ast.Name):
        return p.target.id
    if isinstance(p, ast.Assign) and len(p.targets) == 1 and isinstance(p.targets[0], ast.Name):
        return p.targets[0].id
    raise Unsupported(f"{fi.fq}: the result of `{short(call, 40)}` is not assigned to a local")


class EntryLoop:
    """The ``for line in ...`` loop of a v2 loader: regex site (in the loader or in a private helper called
    from the loop that returns ``m.groups()`` / None), the variable holding the match result, group roles."""

    def __init__(self, fi: FunctionInfo, corpus: Corpus | None = None):
        self.fi = fi
        sites = [(fi, None, s_) for s_ in _regex_sites(fi)]
        if not sites and corpus is not None:
            for call, t in _callees(corpus, fi):
                if _enclosing_for(call) is not None:
                    sites += [(t, call, s_) for s_ in _regex_sites(t)]
        if len(sites) != 1:
            raise Unsupported(f"{fi.fq}: expected exactly one regex match site, found {len(sites)}")
        self.regex_fi, via, (self.kind, pat, fl, self.subject, self.regex_call) = sites[0]
        rmod = self.regex_fi.module
        if pat is None or self.subject is None:
            raise Unsupported(f"{fi.fq}: regex call shape not understood")
        self.pattern = rmod.eval_const(pat)
        if not isinstance(self.pattern, str):
            raise Unsupported(f"{fi.fq}: regex pattern is not a str constant")
        self.flags = _eval_flags(fl, rmod)
        self.tree = _rp.parse(self.pattern, self.flags)
        self.call = via if via is not None else self.regex_call  # the call inside the loader's loop
        self.loop = _enclosing_for(self.call)
        if self.loop is None or not isinstance(self.loop.target, ast.Name):
            raise Unsupported(f"{fi.fq}: regex match is not inside a `for line in ...` loop")
        base, chain = _method_chain(self.subject)
        if via is not None:
            t = self.regex_fi
            if not (isinstance(base, ast.Name) and base.id in t.params):
                raise Unsupported(f"{t.fq}: regex subject does not derive from a parameter")
            arg = _param_arg(t, via, base.id)
            base, outer = _method_chain(arg) if arg is not None else (None, [])
            chain = outer + chain
            inner_m = _bound_var(t, self.regex_call)
            rets = [r for r in t.local_nodes() if isinstance(r, ast.Return)]

            def is_groups(e):
                return isinstance(e, ast.Call) and isinstance(e.func, ast.Attribute) and e.func.attr == "groups" and _is_name(e.func.value, inner_m) and not e.args

            ok = bool(rets) and any(is_groups(r.value) for r in rets)
            for r in rets:
                v = r.value
                if not (v is None or _is_none(v) or is_groups(v) or (isinstance(v, ast.IfExp) and {True} == {is_groups(b) or _is_none(b) for b in (v.body, v.orelse)})):
                    ok = False
            if not ok:
                raise Unsupported(f"{t.fq}: helper does not return m.groups() / None")
        self.subject_chain = chain
        if not _is_name(base, self.loop.target.id):
            raise Unsupported(f"{fi.fq}: regex subject does not derive from the loop variable")
        self.mvar = _bound_var(fi, self.call)
        self.unpack = None
        for st in fi.local_nodes():
            if not isinstance(st, ast.Assign):
                continue
            v = st.value
            direct = isinstance(v, ast.Call) and isinstance(v.func, ast.Attribute) and v.func.attr == "groups" and _is_name(v.func.value, self.mvar)
            if (via is None and direct) or (via is not None and _is_name(v, self.mvar)):
                self.unpack = st
        t = self.unpack.targets[0] if self.unpack is not None else None
        if not (isinstance(t, ast.Tuple) and all(isinstance(e, ast.Name) for e in t.elts) and len(t.elts) == len(ROLES) == self.tree.state.groups - 1):
            raise Unsupported(f"{fi.fq}: m.groups() is not unpacked into {len(ROLES)} names")
        self.roles = {r: e.id for r, e in zip(ROLES, t.elts)}
        self.body_stmts = set()
        for st in self.loop.body:
            for n in ast.walk(st):
                if isinstance(n, ast.stmt):
                    self.body_stmts.add(n)

    def group_min_width(self) -> dict[str, int]:
        """role variable -> minimal width of its regex group."""
        out = {}

        def rec(sp):
            for op, av in sp.data:
                if str(op) == "SUBPATTERN":
                    g, _, _, p = av
                    if g is not None and 1 <= g <= len(ROLES):
                        out[self.roles[ROLES[g - 1]]] = int(p.getwidth()[0])
                    rec(p)

        rec(self.tree)
        return out

    def norm_tree(self):
        def norm(x):
            if isinstance(x, _rp.SubPattern):
                return tuple(norm(i) for i in x.data)
            if isinstance(x, (tuple, list)):
                return tuple(norm(i) for i in x)
            if isinstance(x, int):
                return str(x) if type(x) is not int else x
            return x

        # VERBOSE/DEBUG only influence parsing/printing; the tree already reflects them
        return norm(self.tree), int(self.tree.state.flags) & ~int(re.VERBOSE | re.DEBUG), self.tree.state.groups


def _myst_loop(corpus) -> EntryLoop:
    return corpus.cache("c18-v2loop", lambda: EntryLoop(_anchors(corpus).v2, corpus))


def _sphinx_loop(corpus) -> EntryLoop:
    return corpus.cache("c18-s-v2loop", lambda: EntryLoop(_anchors(corpus).s_v2, corpus))


# ---------------------------------------------------------------------------
# analysis view: a per-line parse helper of the v2 loader is inlined into the loader's loop
#
# A maintainer may split the long v2 loop into "parse one line" (a pure function returning a NamedTuple /
# tuple, or None for a line to skip) and "insert". The rules below reason about ONE loop body, so the
# loader is analysed on a derived syntax tree in which the helper's body stands where it is called:
# ``return None`` becomes ``continue`` (the caller continues on None), the final ``return C(a, b, ...)``
# becomes bindings of the fields, and ``entry.field`` becomes the bound expression. Nothing is executed.

import copy as _copy
import textwrap as _textwrap


def _fresh(fi: FunctionInfo):
    """A parent-link-free copy of a function's syntax tree with absolute line numbers."""
    seg = ast.get_source_segment(fi.module.src, fi.node)
    if seg is None:
        return None
    tree = ast.parse(_textwrap.dedent(seg)).body[0]
    ast.increment_lineno(tree, fi.node.lineno - 1)
    return tree


def _record_fields(mod, ctor: ast.expr) -> list[str] | None:
    """Field names, in order, of a NamedTuple / dataclass defined in the module."""
    d = dotted(ctor)
    ci = mod.classes.get(d) if d else None
    if ci is None:
        return None
    bases = [b.rsplit(".", 1)[-1] for b in ci.bases]
    decos = [(dotted(x.func if isinstance(x, ast.Call) else x) or "").rsplit(".", 1)[-1] for x in ci.node.decorator_list]
    if "NamedTuple" not in bases and "dataclass" not in decos:
        return None
    return [st.target.id for st in ci.node.body if isinstance(st, ast.AnnAssign) and isinstance(st.target, ast.Name)]


def _inline_parse_helper(corpus: Corpus, loader: FunctionInfo, pred):
    """(new function tree, helper) with the per-line parse helper (``pred(helper)``) inlined into the loader's
    loop, or None. Call forms: ``res = helper(line)`` (followed by ``if res is None: continue`` when the helper can
    return None) or the call nested as an argument of an expression statement (``store(inv, helper(line))``)."""
    mod = loader.module
    lt = _fresh(loader)
    if lt is None:
        return None
    for loop in [n for n in ast.walk(lt) if isinstance(n, ast.For)]:
        for i, st in enumerate(loop.body):
            call = None
            nested = False
            if isinstance(st, ast.Assign) and len(st.targets) == 1 and isinstance(st.targets[0], ast.Name) and isinstance(st.value, ast.Call) and isinstance(st.value.func, ast.Name):
                call, res = st.value, st.targets[0].id
            elif isinstance(st, ast.Expr) and isinstance(st.value, ast.Call):
                for a in list(st.value.args) + [kw.value for kw in st.value.keywords]:
                    if isinstance(a, ast.Call) and isinstance(a.func, ast.Name) and a.func.id in mod.functions:
                        call, res, nested = a, "_entry", True
            if call is None:
                continue
            helper = mod.functions.get(call.func.id)
            if helper is None or helper.is_lambda or helper.fq == loader.fq or helper.cls is not None or not pred(helper):
                continue
            hf = _fresh(helper)
            if hf is None or hf.args.vararg or hf.args.kwarg or hf.args.kwonlyargs:
                continue
            if any(isinstance(n, (ast.FunctionDef, ast.AsyncFunctionDef, ast.Lambda, ast.Yield, ast.YieldFrom, ast.Global, ast.Nonlocal, ast.ClassDef)) for b in hf.body for n in ast.walk(b)):
                continue
            body = [b for b in hf.body if not (isinstance(b, ast.Expr) and isinstance(b.value, ast.Constant))]
            if not body or not isinstance(body[-1], ast.Return) or body[-1].value is None:
                continue
            final = body[-1]
            rets = [n for b in body for n in ast.walk(b) if isinstance(n, ast.Return)]
            inner_loops = [n for b in body for n in ast.walk(b) if isinstance(n, (ast.For, ast.While))]
            if any(r is not final and not (r.value is None or _is_none(r.value)) for r in rets):
                continue
            if any(isinstance(n, ast.Return) for l in inner_loops for n in ast.walk(l)):
                continue
            may_none = len(rets) > 1
            # the caller must skip the line when the helper returned None
            consumed = 1
            if may_none:
                if nested:
                    continue
                nxt = loop.body[i + 1] if i + 1 < len(loop.body) else None
                ok_skip = False
                if isinstance(nxt, ast.If) and not nxt.orelse and len(nxt.body) == 1 and isinstance(nxt.body[0], ast.Continue):
                    t = nxt.test
                    if isinstance(t, ast.UnaryOp) and isinstance(t.op, ast.Not) and _is_name(t.operand, res):
                        ok_skip = True
                    if isinstance(t, ast.Compare) and len(t.ops) == 1 and isinstance(t.ops[0], ast.Is) and _is_name(t.left, res) and _is_none(t.comparators[0]):
                        ok_skip = True
                if not ok_skip:
                    continue
                consumed = 2
            # fields of the returned record
            rv = final.value
            ctor = None
            if isinstance(rv, ast.Call) and not any(isinstance(a, ast.Starred) for a in rv.args):
                fields = _record_fields(mod, rv.func)
                if fields is None or len(rv.args) + len(rv.keywords) > len(fields):
                    continue
                fexpr = dict(zip(fields, rv.args))
                for kw in rv.keywords:
                    if kw.arg is None:
                        fexpr = None
                        break
                    fexpr[kw.arg] = kw.value
                if fexpr is None or set(fexpr) != set(fields):
                    continue
                positional = [fexpr[f] for f in fields]
                ctor = rv.func
            elif isinstance(rv, ast.Tuple):
                fields, positional = [], list(rv.elts)
            else:
                continue
            # parameters
            params = [a.arg for a in hf.args.posonlyargs + hf.args.args]
            pargs: dict | None = {}
            for j, a in enumerate(call.args):
                if isinstance(a, ast.Starred) or j >= len(params):
                    pargs = None
                    break
                pargs[params[j]] = a
            if pargs is None:
                continue
            for kw in call.keywords:
                if kw.arg is None or kw.arg not in params:
                    pargs = None
                    break
                pargs[kw.arg] = kw.value
            if pargs is None or set(pargs) != set(params):
                continue
            # names: helper locals that collide with the caller's are renamed
            caller_names = {n.id for n in ast.walk(lt) if isinstance(n, ast.Name)} | {a.arg for a in lt.args.args}
            if nested and res in caller_names:
                continue
            helper_locals = set(params) | {n.id for b in body for n in ast.walk(b) if isinstance(n, ast.Name) and isinstance(n.ctx, ast.Store)}
            ren = {}
            for nm in helper_locals:
                if nm in caller_names and not (nm in pargs and _is_name(pargs[nm], nm)):
                    ren[nm] = f"{nm}_{helper.name.strip('_')}"
            for b in body:
                for n in ast.walk(b):
                    if isinstance(n, ast.Name) and n.id in ren:
                        n.id = ren[n.id]
            new_body: list = []
            for p_ in params:
                tgt = ren.get(p_, p_)
                if not _is_name(pargs[p_], tgt):
                    new_body.append(ast.Assign(targets=[ast.Name(id=tgt, ctx=ast.Store())], value=pargs[p_], lineno=st.lineno))
            # uses of the result
            if nested:
                rest = [st] + loop.body[i + 1 :]
            else:
                rest = loop.body[i + consumed :]
                skipped = loop.body[i + 1 : i + consumed]
                outside = [n for n in ast.walk(lt) if isinstance(n, ast.Name) and n.id == res and n is not st.targets[0] and not any(n is x for r_ in rest for x in ast.walk(r_)) and not any(n is x for s_ in skipped for x in ast.walk(s_))]
                if outside:
                    continue
            binds: list = []
            fvar: dict = {}
            simple: list = []
            for idx_, e_ in enumerate(positional):
                f_ = fields[idx_] if idx_ < len(fields) else str(idx_)
                if isinstance(e_, ast.Name) or isinstance(e_, ast.Constant):
                    simple.append(e_)
                    fvar[f_] = e_
                else:
                    v_ = f"{res}_{f_}"
                    binds.append(ast.Assign(targets=[ast.Name(id=v_, ctx=ast.Store())], value=e_, lineno=final.lineno))
                    fvar[f_] = ast.Name(id=v_, ctx=ast.Load())
                    simple.append(fvar[f_])

            def whole():
                elts = [_copy.deepcopy(e) for e in simple]
                if ctor is not None:
                    return ast.Call(func=_copy.deepcopy(ctor), args=elts, keywords=[])
                return ast.Tuple(elts=elts, ctx=ast.Load())

            class Rw(ast.NodeTransformer):
                def visit_Attribute(self, n):
                    if _is_name(n.value, res) and isinstance(n.ctx, ast.Load) and n.attr in fvar:
                        return ast.copy_location(_copy.deepcopy(fvar[n.attr]), n)
                    return self.generic_visit(n)

                def visit_Assign(self, n):
                    if _is_name(n.value, res) and isinstance(n.targets[0], (ast.Tuple, ast.List)) and len(n.targets[0].elts) == len(positional):
                        n.value = ast.copy_location(ast.Tuple(elts=[_copy.deepcopy(e) for e in simple], ctx=ast.Load()), n.value)
                        return n
                    return self.generic_visit(n)

                def visit_Call(self, n):
                    # the record handed on whole (store helper): pass an equivalent constructor call
                    if nested and any(a is call for a in n.args):
                        n.args = [ast.copy_location(whole(), a) if a is call else a for a in n.args]
                    for kw in n.keywords:
                        if nested and kw.value is call:
                            kw.value = ast.copy_location(whole(), call)
                    n.args = [ast.copy_location(whole(), a) if _is_name(a, res) else a for a in n.args]
                    for kw in n.keywords:
                        if _is_name(kw.value, res):
                            kw.value = ast.copy_location(whole(), kw.value)
                    return self.generic_visit(n)

            rest = [Rw().visit(r_) for r_ in rest]
            if any(isinstance(n, ast.Name) and n.id == res for r_ in rest for n in ast.walk(r_)):
                continue  # the record escapes in a way that is not understood

            class Ret(ast.NodeTransformer):
                def visit_Return(self, n):
                    return ast.copy_location(ast.Continue(), n)

            inl = [Ret().visit(b) for b in body[:-1]]
            loop.body = loop.body[:i] + new_body + inl + binds + rest
            ast.fix_missing_locations(lt)
            return lt, helper
    return None


def _view(corpus: Corpus) -> Corpus:
    """The corpus the rules analyse: ``corpus`` itself, or an overlay in which the v2 loader's per-line parse
    helper is inlined (appended as a later definition of the loader, line numbers mapped back)."""
    if getattr(corpus, "_c18_is_view", False):
        return corpus

    def build():
        try:
            A = Anchors(corpus)
            mod = A.inv
            trees = []  # (loader, new tree, helper)

            def has_groups(f):
                return any(isinstance(n, ast.Call) and isinstance(n.func, ast.Attribute) and n.func.attr == "groups" for n in f.local_nodes())

            def has_v1_unpack(f):
                try:
                    _v1_unpack(f)
                    return True
                except Unsupported:
                    return False

            try:
                EntryLoop(A.v2, corpus)  # understood as it is
            except Unsupported:
                r = _inline_parse_helper(corpus, A.v2, has_groups)
                if r is not None:
                    trees.append((A.v2,) + r)
            if not has_v1_unpack(A.v1):
                r = _inline_parse_helper(corpus, A.v1, has_v1_unpack)
                if r is not None:
                    trees.append((A.v1,) + r)
            if not trees:
                return corpus
            new_src = mod.src.rstrip("\n") + "\n"
            for _, tree, _h in trees:
                new_src += "\n\n" + ast.unparse(tree) + "\n"
            ov = Corpus.load(corpus.root, overlay={mod.rel: new_src}, base=corpus)
            notes = []
            for loader, tree, helper in trees:
                nf = ov.mod("inventory").functions.get(loader.qualname)
                if nf is None:
                    return corpus
                a, b = list(ast.walk(nf.node)), list(ast.walk(tree))
                if [type(x) for x in a] == [type(x) for x in b]:
                    for x, y in zip(a, b):
                        for attr in ("lineno", "end_lineno"):
                            if hasattr(y, attr) and hasattr(x, attr):
                                setattr(x, attr, getattr(y, attr))
                notes.append(f"{loader.fq} analysed with its per-line helper {helper.qualname} inlined into the loop")
            ov._c18_is_view = True
            ov._c18_view_note = "; ".join(notes)
            return ov
        except (AnchorMissing, Unsupported, SyntaxError):
            return corpus

    return corpus.cache("c18-view", build)


# ---------------------------------------------------------------------------
# R1


@rule("C18.R1")
def r1_regex_equals_sphinx(corpus: Corpus, rep: Report, tier: str):
    corpus = _view(corpus)
    rep.rule("C18.R1", "v2 entry regex tree, flags, match function and subject normalisation equal Sphinx's")
    A = _anchors(corpus)
    rep.saw_sibling(SIB)
    rep.note(f"oracle: sphinx {A.sphinx_version} ({SIB})")
    if getattr(corpus, "_c18_view_note", None):
        rep.note(corpus._c18_view_note)
    m, s = _myst_loop(corpus), _sphinx_loop(corpus)
    rep.saw_function(m.fi.fq)
    site = m.fi.module.site(m.call)
    mt, mf, mg = m.norm_tree()
    st, sf, sg = s.norm_tree()
    k = f"{m.fi.fq}|entry regex tree"
    if mt == st and mg == sg:
        rep.ok("C18.R1", k, site, f"{mg - 1} groups, identical trees")
    else:
        rep.violation("C18.R1", k, site, f"the v2 entry regex {m.pattern!r} does not parse to the same tree as Sphinx {A.sphinx_version}'s {s.pattern!r}: lines are split into different fields")
    k = f"{m.fi.fq}|entry regex flags"
    if mf == sf:
        rep.ok("C18.R1", k, site, f"flags {mf:#x}")
    else:
        rep.violation("C18.R1", k, site, f"regex flags {mf:#x} differ from Sphinx's {sf:#x} (VERBOSE ignored)")
    k = f"{m.fi.fq}|entry regex match function"
    if m.kind == s.kind:
        rep.ok("C18.R1", k, site, f"re.{m.kind}")
    else:
        rep.violation("C18.R1", k, site, f"entries are matched with re.{m.kind}, Sphinx uses re.{s.kind}")
    k = f"{m.fi.fq}|entry regex subject"
    if m.subject_chain == s.subject_chain:
        rep.ok("C18.R1", k, site, "line" + "".join(f".{a}({', '.join(b)})" for a, b in m.subject_chain))
    else:
        rep.violation("C18.R1", k, site, f"the regex is applied to `{unparse(m.subject)}`, Sphinx applies it to `{unparse(s.subject)}`: trailing whitespace/CR ends up in the last field")
    rep.expect_min("C18.R1", 4, "tree, flags, function, subject")


# ---------------------------------------------------------------------------
# R2 rule chain of the v2 loader


def _cached_alias(e):
    """``items`` in ``if KEY != current: items = <table chain>; current = KEY`` (a table looked up again only
    when a remembered key changes): (chain expr, the if statement, KEY expr, name of the remembered key)."""
    if not (isinstance(e, ast.Name) and hasattr(e, "_parent")):
        return None
    f = enclosing_function(e)
    if f is None or e.id in f.params:
        return None
    defs = [d for d in f.local_nodes() if isinstance(d, (ast.Assign, ast.AnnAssign)) and d.value is not None and any(_is_name(t_, e.id) for t_ in (d.targets if isinstance(d, ast.Assign) else [d.target]))]
    stores = [n for n in f.local_nodes() if isinstance(n, ast.Name) and n.id == e.id and isinstance(n.ctx, ast.Store)]
    chains = [d for d in defs if isinstance(d.value, (ast.Call, ast.Subscript)) and "objects" in unparse(d.value)]
    inits = [d for d in defs if d not in chains]
    if len(chains) != 1 or len(stores) != len(defs) or any(not (isinstance(i_.value, ast.Dict) and not i_.value.keys) and not _is_none(i_.value) for i_ in inits):
        return None
    d = chains[0]
    p = parent(d)
    if not (isinstance(p, ast.If) and d in p.body and not p.orelse):
        return None
    t, neg = p.test, False
    while isinstance(t, ast.UnaryOp) and isinstance(t.op, ast.Not):
        t, neg = t.operand, not neg
    if not (isinstance(t, ast.Compare) and len(t.ops) == 1 and isinstance(t.ops[0], (ast.NotEq, ast.Eq, ast.Is, ast.IsNot))):
        return None
    if isinstance(t.ops[0], (ast.Eq, ast.Is)) != neg:
        return None  # the refresh must happen when the key DIFFERS from the remembered one
    for key, cache in ((t.left, t.comparators[0]), (t.comparators[0], t.left)):
        if isinstance(cache, ast.Name) and any(isinstance(x, ast.Assign) and len(x.targets) == 1 and _is_name(x.targets[0], cache.id) and unparse(x.value) == unparse(key) for x in p.body):
            return d.value, p, key, cache.id
    return None


def _access_chain(e, _depth: int = 0):
    """``a[k1].setdefault(k2, {})[k3]`` -> (a, [k1, k2, k3]) (subscripts and setdefault/get calls mixed)."""
    keys = []
    while True:
        if isinstance(e, ast.Subscript):
            keys.append(e.slice)
            e = e.value
        elif isinstance(e, ast.Call) and isinstance(e.func, ast.Attribute) and e.func.attr in ("setdefault", "get") and e.args:
            keys.append(e.args[0])
            e = e.func.value
        else:
            break
    keys = list(reversed(keys))
    if isinstance(e, ast.Name) and _depth < 3 and hasattr(e, "_parent"):
        # a local bound once to a part of the table: items = inv["objects"].setdefault(d, {}).setdefault(o, {})
        f = enclosing_function(e)
        if f is not None and e.id not in f.params:
            defs = [d for d in f.local_nodes() if isinstance(d, (ast.Assign, ast.AnnAssign)) and d.value is not None and any(_is_name(t_, e.id) for t_ in (d.targets if isinstance(d, ast.Assign) else [d.target]))]
            others = [n for n in f.local_nodes() if isinstance(n, ast.Name) and n.id == e.id and isinstance(n.ctx, ast.Store)]
            if len(defs) == 1 and len(others) == 1:
                b2, k2 = _access_chain(defs[0].value, _depth + 1)
                if k2:
                    return b2, k2 + keys
            ca = _cached_alias(e)
            if ca is not None:  # whether the remembered key covers the chain's variables is judged by R2
                b2, k2 = _access_chain(ca[0], _depth + 1)
                if k2:
                    return b2, k2 + keys
    return e, keys


OVERWRITE, KEEP_FIRST = "a later entry replaces an earlier one", "the first entry is kept"


def _entry_store(st, rooted: bool = True):
    """(keys [domain, objtype, name], item expr, duplicate mode) when ``st`` puts one item into the
    MyST-format table: subscript assignment, ``.setdefault(name, item)`` or ``.update({name: item})``."""
    chain = item = mode = None
    if isinstance(st, ast.Assign) and len(st.targets) == 1 and isinstance(st.targets[0], ast.Subscript):
        chain, item, mode = _access_chain(st.targets[0]), st.value, OVERWRITE
    elif isinstance(st, ast.Expr) and isinstance(st.value, ast.Call) and isinstance(st.value.func, ast.Attribute):
        c = st.value
        if c.func.attr == "setdefault" and len(c.args) == 2 and not (isinstance(c.args[1], ast.Dict) and not c.args[1].keys):
            base, keys = _access_chain(c.func.value)
            chain, item, mode = (base, keys + [c.args[0]]), c.args[1], KEEP_FIRST
        elif c.func.attr == "update" and len(c.args) == 1 and isinstance(c.args[0], ast.Dict) and len(c.args[0].keys) == 1 and c.args[0].keys[0] is not None:
            base, keys = _access_chain(c.func.value)
            chain, item, mode = (base, keys + [c.args[0].keys[0]]), c.args[0].values[0], OVERWRITE
    if chain is None:
        return None
    base, keys = chain
    if rooted:
        if len(keys) == 4 and _cstr(keys[0]) == "objects":
            return keys[1:], item, mode
        return None
    return (keys[-3:], item, mode) if len(keys) >= 1 else None


def _objects_store(st) -> list | None:
    """keys [domain, objtype, name] of a store into ``X["objects"][d][o][n]``."""
    r = _entry_store(st)
    return r[0] if r is not None else None


def _item_dict(fi: FunctionInfo, e):
    """The dict literal an item expression denotes (directly or through one local)."""
    if isinstance(e, ast.Dict):
        return e
    if isinstance(e, ast.Name):
        defs = [n for n in fi.local_nodes() if isinstance(n, (ast.Assign, ast.AnnAssign)) and n.value is not None and any(_is_name(t, e.id) for t in (n.targets if isinstance(n, ast.Assign) else [n.target]))]
        if len(defs) == 1 and isinstance(defs[0].value, ast.Dict):
            return defs[0].value
    return None


def _sphinx_store_mode(A, st):
    """Duplicate semantics of Sphinx's entry store ``inv[type, name] = item``."""
    if not (isinstance(st, ast.Assign) and len(st.targets) == 1 and isinstance(st.targets[0], ast.Subscript)):
        return None
    t = st.targets[0]
    if isinstance(t.slice, ast.Tuple) and len(t.slice.elts) == 2 and isinstance(t.value, ast.Name):
        si = A.sib.functions.get("_Inventory.__setitem__")
        if si is None:
            raise Unsupported(f"{SIB}: _Inventory.__setitem__ not found")
        last = si.node.body[-1]
        if isinstance(last, ast.Assign) and isinstance(last.targets[0], ast.Subscript):
            return OVERWRITE
        raise Unsupported(f"{SIB}: _Inventory.__setitem__ not understood")
    if isinstance(t.value, ast.Call) and isinstance(t.value.func, ast.Attribute) and t.value.func.attr == "setdefault":
        return OVERWRITE
    return None


class _Sym:
    """Abstract display name: 'the same string as local variable <name>' (non-empty, differs from every constant)."""

    def __init__(self, name: str):
        self.name = name

    def __repr__(self):
        return f"<same as {self.name}>"

    def __eq__(self, other):
        return isinstance(other, _Sym) and other.name == self.name

    def __hash__(self):
        return hash(self.name)


def _eval_pred(t, var: str, s) -> bool:
    """Evaluate a boolean combination of tests on one string variable for the abstract value ``s``:
    a sample string (which differs from the value of every other variable) or ``_Sym(v)``."""

    def same(e) -> bool:  # does abstract value s equal operand e?
        if _cstr(e) is not None:
            return not isinstance(s, _Sym) and s == _cstr(e)
        if isinstance(e, ast.Name) and e.id != var:
            return isinstance(s, _Sym) and s.name == e.id
        raise Unsupported(f"operand in a test on the display name not understood: {short(e, 40)}")

    if isinstance(t, ast.UnaryOp) and isinstance(t.op, ast.Not):
        return not _eval_pred(t.operand, var, s)
    if isinstance(t, ast.BoolOp):
        vals = [_eval_pred(v, var, s) for v in t.values]
        return all(vals) if isinstance(t.op, ast.And) else any(vals)
    if _is_name(t, var):
        return isinstance(s, _Sym) or bool(s)
    if isinstance(t, ast.Compare) and len(t.ops) == 1:
        op, l, r = t.ops[0], t.left, t.comparators[0]
        if isinstance(op, (ast.Eq, ast.NotEq)) and (_is_name(l, var) or _is_name(r, var)):
            return same(r if _is_name(l, var) else l) == isinstance(op, ast.Eq)
        if isinstance(op, (ast.In, ast.NotIn)) and _is_name(l, var) and isinstance(r, (ast.Tuple, ast.List, ast.Set)):
            return any(same(e) for e in r.elts) == isinstance(op, ast.In)
        if isinstance(op, (ast.Is, ast.IsNot)) and _is_name(l, var) and isinstance(r, ast.Constant) and r.value is None:
            return isinstance(op, ast.IsNot)
    raise Unsupported(f"test on the display name not understood: {short(t, 60)}")


def _other_names(tests, var: str) -> list[str]:
    return sorted({n.id for t in tests for n in ast.walk(t) if isinstance(n, ast.Name) and n.id != var})


def _is_none(e) -> bool:
    return isinstance(e, ast.Constant) and e.value is None


def _text_outcomes(fi: FunctionInfo, value: ast.expr, store: ast.stmt, scope: set, unpack: ast.stmt | None, samples: list[str], corpus: Corpus | None = None) -> list:
    """What is stored as "text" for each abstract display name in ``samples`` (None or the name itself)."""
    cfg = get_cfg(fi)
    inl = (lambda e: _inline(corpus, fi, e)) if corpus is not None else (lambda e: e)
    value = inl(value)
    if isinstance(value, ast.IfExp):
        branch = [b.id for b in (value.body, value.orelse) if isinstance(b, ast.Name)]
        if len(branch) != 1:
            raise Unsupported(f"display-name expression not understood: {short(value, 60)}")
        var = branch[0]
        samples.extend(_Sym(v) for v in _other_names([value.test], var))
        out = []
        for s in samples:
            br = value.body if _eval_pred(value.test, var, s) else value.orelse
            if _is_none(br):
                out.append(None)
            elif _is_name(br, var):
                out.append(s)
            else:
                raise Unsupported(f"display-name expression not understood: {short(value, 60)}")
        return out
    if isinstance(value, ast.Name):
        var = value.id
        sdefs = [st for st in scope if isinstance(st, ast.Assign) and st is not unpack and len(st.targets) == 1 and _is_name(st.targets[0], var)]
        alld = [st for st in scope if st is not unpack and isinstance(st, (ast.Assign, ast.AugAssign, ast.AnnAssign)) and any(_is_name(n, var) and isinstance(n.ctx, ast.Store) for t_ in (st.targets if isinstance(st, ast.Assign) else [st.target]) for n in ast.walk(t_))]
        if len(sdefs) == 1 and len(alld) == 1 and not _mentions(sdefs[0].value, {var}) and cfg.dominates(sdefs[0], store):
            return _text_outcomes(fi, sdefs[0].value, store, scope, unpack, samples, corpus)  # entry_text = <expr over text>
        tests = []
        for st in scope:
            if st is unpack or not isinstance(st, (ast.Assign, ast.AugAssign, ast.AnnAssign)):
                continue
            tg = st.targets if isinstance(st, ast.Assign) else [st.target]
            if not any(_is_name(n, var) and isinstance(n.ctx, ast.Store) for t in tg for n in ast.walk(t)):
                continue
            if isinstance(st, ast.Assign) and any(isinstance(t, (ast.Tuple, ast.List)) for t in tg):
                continue  # the unpacking that defines the display name
            p = parent(st)
            if isinstance(st, ast.Assign) and _is_none(st.value) and isinstance(p, ast.If) and st in p.body and not p.orelse and cfg.dominates(p, store) and p in scope:
                tests.append(p.test)
            elif isinstance(st, ast.Assign) and isinstance(inl(st.value), ast.IfExp) and _is_none(inl(st.value).body) and _is_name(inl(st.value).orelse, var) and cfg.dominates(st, store):
                tests.append(inl(st.value).test)  # text = None if <test> else text
            elif isinstance(st, ast.Assign) and isinstance(inl(st.value), ast.IfExp) and _is_none(inl(st.value).orelse) and _is_name(inl(st.value).body, var) and cfg.dominates(st, store):
                tests.append(ast.UnaryOp(op=ast.Not(), operand=inl(st.value).test))
            else:
                raise Unsupported(f"assignment to the display name not understood: {short(st, 60)}")
        samples.extend(_Sym(v) for v in _other_names(tests, var))
        return [None if any(_eval_pred(t, var, s) for t in tests) else s for s in samples]
    raise Unsupported(f"display-name value not understood: {short(value, 60)}")


def _dict_value(d: ast.expr, key: str):
    if isinstance(d, ast.Dict):
        for k, v in zip(d.keys, d.values):
            if _cstr(k) == key:
                return v
    return None


def _caught_and_skipped(fi: FunctionInfo, st) -> bool:
    """``st`` lies in a try body whose ValueError (or broader) handler leaves the iteration with ``continue``."""
    node = st
    p = parent(st)
    while p is not None and not isinstance(p, (ast.FunctionDef, ast.AsyncFunctionDef)):
        if isinstance(p, ast.Try) and node in p.body:
            for h in p.handlers:
                names = [] if h.type is None else [unparse(x) for x in (h.type.elts if isinstance(h.type, ast.Tuple) else [h.type])]
                if (h.type is None or any(n_ in ("ValueError", "Exception", "BaseException") for n_ in names)) and h.body and isinstance(h.body[-1], ast.Continue):
                    return True
        node, p = p, parent(p)
    return False


def _partition_sep_checked(fi: FunctionInfo, c: ast.Call) -> bool:
    """``d, sep, o = x.partition(":")`` followed (same block) by ``if not sep: continue`` before d/o are used."""
    a = parent(c)
    if not (isinstance(a, ast.Assign) and isinstance(a.targets[0], ast.Tuple) and len(a.targets[0].elts) == 3 and all(isinstance(e, ast.Name) for e in a.targets[0].elts)):
        return False
    d_, sep_, o_ = (e.id for e in a.targets[0].elts)
    blk = None
    p_ = parent(a)
    for fld in ("body", "orelse", "finalbody"):
        if a in getattr(p_, fld, []):
            blk = getattr(p_, fld)
    if blk is None:
        return False
    for st in blk[blk.index(a) + 1 :]:
        if isinstance(st, ast.If) and not st.orelse and st.body and isinstance(st.body[-1], (ast.Continue, ast.Return)) and any(_is_name(t, sep_) and not pol for t, pol in facts(st.test, True)):
            return True
        if any(isinstance(n, ast.Name) and n.id in (d_, o_) for n in ast.walk(st)):
            return False
    return False


def _check_type_splits(rep: Report, rid: str, fi: FunctionInfo, typevar: str, scope, alias=lambda e: False) -> int:
    cfg = get_cfg(fi)
    n = 0
    for c in fi.local_nodes():
        if not (isinstance(c, ast.Call) and isinstance(c.func, ast.Attribute) and c.func.attr in ("split", "rsplit", "partition", "rpartition") and _is_name(c.func.value, typevar)):
            continue
        if scope is not None and cfg.stmt_of(c) not in scope:
            continue
        n += 1
        site = fi.module.site(c)
        if not c.args:
            raise Unsupported(f"{fi.fq}: domain:objtype is taken apart with {short(c, 40)}")
        sep = _cstr(c.args[0])
        ms = arg_or_kw(c, 1, "maxsplit")
        k = f"{fi.fq}|{typevar}.split|first ':' only"
        if c.func.attr in ("rsplit", "rpartition"):
            rep.violation(rid, k, site, f"`{short(c, 40)}` cuts domain:objtype at the LAST ':'; Sphinx cuts at the first (`split(':', 1)`): for an object type that itself contains ':' (rst:directive:option) the domain becomes 'rst:directive' instead of 'rst'")
        elif sep == ":" and ((c.func.attr == "split" and ms is not None and _const(ms) == 1) or (c.func.attr == "partition" and len(c.args) == 1)):
            rep.ok(rid, k, site)
        else:
            rep.violation(rid, k, site, f"`{short(c, 40)}`: Sphinx keys are split at the first ':' only (`split(':', 1)`); an object type that itself contains ':' (rst:directive:option) no longer unpacks into (domain, objtype)")
        st = cfg.stmt_of(c)
        ok = any(a[0] == "in" and _cstr(a[1]) == sep and (_is_name(a[2], typevar) or alias(a[2])) and a[3] for a in _atoms(cfg, st))
        k = f"{fi.fq}|{typevar}.split|dominated by the ':' test"
        if ok:
            rep.ok(rid, k, site)
        elif c.func.attr in ("partition", "rpartition") and _partition_sep_checked(fi, c):
            rep.ok(rid, k, site, "no ':' -> the separator element is empty, which is tested and the entry skipped")
        elif c.func.attr in ("split", "rsplit") and _caught_and_skipped(fi, st) and isinstance(parent(c), ast.Assign) and isinstance(parent(c).targets[0], ast.Tuple) and len(parent(c).targets[0].elts) == 2:
            rep.ok(rid, k, site, "no ':' -> the two-name unpacking raises ValueError, which is caught and the entry skipped")
        else:
            rep.violation(rid, k, site, f"`{short(c, 40)}` is not dominated by the `{sep!r} in {typevar}` test: a key/type without ':' raises ValueError instead of being skipped (Sphinx skips it)")
    return n


def _helper_store(corpus: Corpus, fi: FunctionInfo, st):
    """When ``st`` calls a private helper that performs the entry store: (keys, item, mode, guards) with the
    helper's parameters (and its local aliases of the table) replaced by the call's arguments. ``guards`` are
    the (test, polarity) facts that dominate the store inside the helper (``if <test>: return`` clauses)."""
    if not (isinstance(st, ast.Expr) and isinstance(st.value, ast.Call)):
        return None
    t = _callee(corpus, fi, st.value)
    if t is None or t.is_lambda:
        return None
    mapping = {}
    for p in t.params:
        a = _param_arg(t, st.value, p)
        if a is None:
            return None
        mapping[p] = a
    # local aliases of (parts of) the table: objects = invdata["objects"].setdefault(d, {}).setdefault(o, {})
    body = [n for n in t.node.body if not (isinstance(n, ast.Expr) and isinstance(n.value, ast.Constant))]
    alias = dict(mapping)
    stores = []
    for n in t.local_nodes():
        if not isinstance(n, ast.stmt) or isinstance(n, (ast.If, ast.Return, ast.Pass)):
            continue
        if isinstance(n, ast.Assign) and len(n.targets) == 1 and isinstance(n.targets[0], ast.Name) and n.targets[0].id not in t.params:
            base, keys = _access_chain(n.value)
            if keys and isinstance(base, ast.Name) and base.id in alias and not any(isinstance(x, ast.Name) and x.id == n.targets[0].id for x in ast.walk(n.value)):
                alias[n.targets[0].id] = _clone(n.value, alias)
                continue
            return None
        if isinstance(n, ast.Expr) and isinstance(n.value, ast.Call) and isinstance(n.value.func, ast.Attribute) and n.value.func.attr == "setdefault" and len(n.value.args) == 2 and isinstance(n.value.args[1], ast.Dict) and not n.value.args[1].keys:
            continue  # creates a nested dictionary
        if isinstance(n, ast.Expr) and isinstance(n.value, ast.Constant):
            continue
        stores.append(n)
    if len(stores) != 1:
        return None
    inner = stores[0]
    # the store as seen from the caller
    view = _clone(inner, alias)
    es = _entry_store(view)
    if es is None:
        return None
    for r in t.local_nodes():
        if isinstance(r, ast.Return) and r.value is not None and not _is_none(r.value):
            return None
    guards = [(_clone(g, alias), pol) for g, pol in get_cfg(t).guards(inner)]
    return es[0], es[1], es[2], guards


def _entry_store_via(corpus: Corpus, fi: FunctionInfo, st):
    """``_entry_store(st)``, or the store performed by a private helper called in ``st`` (see _helper_store)."""
    es = _entry_store(st)
    if es is not None:
        return es
    hs = _helper_store(corpus, fi, st)
    return hs[:3] if hs is not None else None


def _helper_guards(corpus: Corpus, fi: FunctionInfo, st) -> list:
    if _entry_store(st) is not None:
        return []
    hs = _helper_store(corpus, fi, st)
    return hs[3] if hs is not None else []


def _text_problems(samples: list, got: list) -> list[str]:
    """'' and the sentinel must become None, every other display name must be kept."""
    out = []
    for i, (s, g) in enumerate(zip(samples, got)):
        if i < 2 and g is not None:
            out.append(f"{s!r} is kept as {g!r} instead of None")
        if i >= 2 and g != s:
            out.append(f"a display name {('equal to `' + s.name + '`') if isinstance(s, _Sym) else 'other than the sentinel'} is stored as {g!r}")
    return out


def _dup_truth(t, tv: dict, D: bool, O: bool, P: bool) -> bool:
    """Truth of a test built from ``type == "py:module"`` (D and O), ``domain == "py"`` (D), ``objtype ==
    "module"`` (O) and membership tests on the objects table (P). ``tv`` names the type/domain/objtype variables."""
    if isinstance(t, ast.UnaryOp) and isinstance(t.op, ast.Not):
        return not _dup_truth(t.operand, tv, D, O, P)
    if isinstance(t, ast.BoolOp):
        vals = [_dup_truth(v, tv, D, O, P) for v in t.values]
        return all(vals) if isinstance(t.op, ast.And) else any(vals)
    parts = _tuple_eq_parts(t)
    if parts is not None:
        return all(_dup_truth(p_, tv, D, O, P) for p_ in parts) == isinstance(t.ops[0], ast.Eq)
    for a in _atom(t, True):
        if a[0] == "eq":
            for var, c in ((a[1], _cstr(a[2])), (a[2], _cstr(a[1]))):
                if c == "py:module" and _is_name(var, tv["type"]):
                    return (D and O) == a[3]
                if c == "py" and tv.get("domain") and _is_name(var, tv["domain"]):
                    return D == a[3]
                if c == "module" and tv.get("objtype") and _is_name(var, tv["objtype"]):
                    return O == a[3]
        if a[0] == "in" and _is_table(a[2]):
            return P == a[3]
    raise Unsupported(f"part of the py:module test not understood: {short(t, 50)}")


def _is_pydup_test(t, tv: dict) -> bool:
    """Does the test speak about py:module (as one constant, or as domain == "py" / objtype == "module")?"""
    for n in ast.walk(t):
        if isinstance(n, (ast.Constant, ast.Name)) and _cstr(n) == "py:module":
            return True
        if isinstance(n, ast.Compare):
            for a in _atom(n, True):
                if a[0] == "eq":
                    for var, c in ((a[1], _cstr(a[2])), (a[2], _cstr(a[1]))):
                        if (c == "py" and tv.get("domain") and _is_name(var, tv["domain"])) or (c == "module" and tv.get("objtype") and _is_name(var, tv["objtype"])):
                            return True
    return False


def _type_vars(fi: FunctionInfo, typevar: str) -> dict:
    """{"type": ..., "domain": ..., "objtype": ...}: the names the split of domain:objtype is unpacked into."""
    tv = {"type": typevar}
    for st in fi.local_nodes():
        if isinstance(st, ast.Assign) and isinstance(st.targets[0], ast.Tuple) and isinstance(st.value, ast.Call) and isinstance(st.value.func, ast.Attribute) and _is_name(st.value.func.value, typevar):
            el = st.targets[0].elts
            if st.value.func.attr in ("split", "rsplit") and len(el) == 2 and all(isinstance(e, ast.Name) for e in el):
                tv["domain"], tv["objtype"] = el[0].id, el[1].id
            elif st.value.func.attr in ("partition", "rpartition") and len(el) == 3 and isinstance(el[0], ast.Name) and isinstance(el[2], ast.Name):
                tv["domain"], tv["objtype"] = el[0].id, el[2].id
                if isinstance(el[1], ast.Name) and st.value.args and _cstr(st.value.args[0]) == ":":
                    tv["sep"] = el[1].id  # non-empty exactly when the type contains ':' 
    return tv


def _mentions(t, names) -> bool:
    return any(isinstance(n, ast.Name) and n.id in names for n in ast.walk(t))


def _store_guard_classes(fi: FunctionInfo, L: "EntryLoop", store, extra=()) -> list[tuple[str, ast.expr, bool]]:
    """Classify every branch fact that dominates the entry store (``extra``: the facts inside a store
    helper, already expressed in the loader's variables): MATCH / COLON / PYDUP / FIELD / OTHER."""
    cfg = get_cfg(fi)
    R = L.roles
    tvs = _type_vars(fi, R["type"])
    fields = set(R.values()) | {v for k_, v in tvs.items() if k_ != "type"}
    out = []
    own = []
    for t, pol in cfg.guards(store):
        if not any(t is n for st in L.body_stmts if isinstance(st, (ast.If, ast.While)) for n in ast.walk(st.test)):
            continue  # facts established outside the entry loop (header checks)
        own.append((t, pol))
    for t, pol in own + list(extra):
        cls = "OTHER"
        if isinstance(t, ast.Constant):
            continue  # constant test: no condition on the entry
        is_m = lambda e: _is_name(e, L.mvar) or (isinstance(e, ast.NamedExpr) and _is_name(e.target, L.mvar))
        if is_m(t) and pol:
            cls = "MATCH"
        elif isinstance(t, ast.Compare) and len(t.ops) == 1 and is_m(t.left) and _is_none(t.comparators[0]) and isinstance(t.ops[0], (ast.Is, ast.IsNot)) and (isinstance(t.ops[0], ast.IsNot) == pol):
            cls = "MATCH"
        elif any(a[0] == "in" and _cstr(a[1]) == ":" and a[3] and (_is_name(a[2], R["type"]) or (isinstance(a[2], (ast.Call, ast.Subscript)) and _mentions(a[2], {L.mvar}) and str(ROLES.index("type") + 1) in unparse(a[2]))) for a in _atom(t, pol)):
            cls = "COLON"
        elif tvs.get("sep") and _is_name(t, tvs["sep"]) and pol:
            cls = "COLON"  # d, sep, o = type.partition(":"): sep is truthy exactly when ':' is in the type
        elif _is_pydup_test(t, tvs):
            cls = "PYDUP"
        elif isinstance(t, ast.Name) and t.id in R.values() and pol and L.group_min_width().get(t.id, 0) >= 1:
            cls = "VACUOUS"  # the regex group cannot be empty: the truthiness test never skips anything
        elif _mentions(t, fields):
            cls = "FIELD"
        out.append((cls, t, pol))
    return out


@rule("C18.R2")
def r2_rule_chain(corpus: Corpus, rep: Report, tier: str):
    corpus = _view(corpus)
    rep.rule("C18.R2", "v2 loader: ':' test dominates the split, py:module first-wins skip, '$' expansion, '-'/empty -> None, Sphinx's skip conditions only, later duplicate overwrites")
    A = _anchors(corpus)
    L = _myst_loop(corpus)
    S = _sphinx_loop(corpus)
    fi, cfg, mod = L.fi, get_cfg(L.fi), L.fi.module
    R = L.roles
    scope = L.body_stmts
    stores = [st for st in scope if _entry_store_via(corpus, fi, st) is not None]
    if len(stores) != 1:
        raise Unsupported(f"{fi.fq}: expected one store into [\"objects\"][domain][objtype][name], found {len(stores)}")
    store = stores[0]
    _, item_e, mode = _entry_store_via(corpus, fi, store)
    item = _item_dict(fi, item_e)
    if item is None:
        raise Unsupported(f"{fi.fq}: the stored item is not a dict literal")
    # (a0) a table that is looked up again only when a remembered key changes: the key must determine the table
    if isinstance(store, ast.Assign) and isinstance(store.targets[0], ast.Subscript):
        b_ = store.targets[0].value
        while isinstance(b_, ast.Subscript):
            b_ = b_.value
        ca = _cached_alias(b_)
        if ca is not None:
            chain_, if_, key_, cache_ = ca
            varying = {n.id for st_ in scope for n in ast.walk(st_) if isinstance(n, ast.Name) and isinstance(n.ctx, ast.Store)}
            determined = {n.id for n in ast.walk(key_) if isinstance(n, ast.Name)}
            changed = True
            while changed:
                changed = False
                for st_ in scope:
                    if isinstance(st_, ast.Assign) and not any(st_ is x for x in ast.walk(if_)):
                        srcs = {n.id for n in ast.walk(st_.value) if isinstance(n, ast.Name) and n.id in varying}
                        tg = {n.id for t_ in st_.targets for n in ast.walk(t_) if isinstance(n, ast.Name)}
                        if srcs and srcs <= determined and not tg <= determined and len([x for x in scope if isinstance(x, ast.Assign) and any(isinstance(n, ast.Name) and n.id in tg and isinstance(n.ctx, ast.Store) for t_ in x.targets for n in ast.walk(t_))]) == 1:
                            determined |= tg
                            changed = True
            needs = {n.id for n in ast.walk(chain_) if isinstance(n, ast.Name) and n.id in varying}
            missing = sorted(needs - determined)
            k = f"{fi.fq}|cached table `{unparse(b_)}`|looked up again whenever its keys change"
            if missing:
                rep.violation("C18.R2", k, mod.site(if_), f"`{unparse(b_)}` = `{short(chain_, 60)}` is only looked up again when `{unparse(key_)}` differs from the remembered `{cache_}`, but the table also depends on {', '.join(missing)}: an entry whose {unparse(key_)} equals the previous entry's while its {', '.join(missing)} differs is stored in the previous entry's table")
            else:
                rep.ok("C18.R2", k, mod.site(if_), f"remembered key `{unparse(key_)}` determines {sorted(needs)}")
    # (a) the ':' test precedes the split (v2 loader and from_sphinx)
    type_group = ROLES.index("type") + 1

    def type_alias(e) -> bool:  # m.group(2) / m[2] denote the same field before the unpacking
        if isinstance(e, ast.Call) and isinstance(e.func, ast.Attribute) and e.func.attr == "group" and _is_name(e.func.value, L.mvar) and len(e.args) == 1:
            return _const(e.args[0]) == type_group
        return isinstance(e, ast.Subscript) and _is_name(e.value, L.mvar) and _const(e.slice) == type_group

    if _check_type_splits(rep, "C18.R2", fi, R["type"], scope, type_alias) == 0:
        raise Unsupported(f"{fi.fq}: `{R['type']}` is never split into domain and objtype")
    fs = A.from_sphinx
    try:
        fs_type = _items_key_var(fs)
    except Unsupported:
        # the iteration over the Sphinx keys moved into a generator helper: for d, t, data in _groups(inv)
        moved = None
        for call, t_ in _callees(corpus, fs):
            if isinstance(parent(call), ast.For) and parent(call).iter is call and t_.is_generator():
                try:
                    moved = (t_, _items_key_var(t_))
                except Unsupported:
                    pass
        if moved is None:
            raise
        fs, fs_type = moved
    if _check_type_splits(rep, "C18.R2", fs, fs_type, None) == 0:
        raise Unsupported(f"{fs.fq}: `{fs_type}` is never split into domain and objtype")
    # (b) duplicate py:module: first entry wins
    conts = [st for st in scope if isinstance(st, ast.Continue)]
    guards = _store_guard_classes(fi, L, store, _helper_guards(corpus, fi, store))
    k = f"{fi.fq}|py:module duplicate rule"
    dup = []
    for c in conts:
        at = _atoms(cfg, c)
        if any(a[0] == "eq" and a[3] and "py:module" in (_cstr(a[1]), _cstr(a[2])) and (_is_name(a[1], R["type"]) or _is_name(a[2], R["type"])) for a in at):
            dup.append((c, [a for a in at if a[0] == "in" and _is_table(a[2])]))
    pyd = [(t, pol) for cls, t, pol in guards if cls == "PYDUP"]
    if dup:
        for c, member in dup:
            if not member:
                raise Unsupported(f"{fi.fq}: py:module skip without a membership test on the objects table")
            if all(a[3] for a in member):
                rep.ok("C18.R2", k, mod.site(c), "skip when already present (key kinds: R3)")
            else:
                rep.violation("C18.R2", k, mod.site(c), "the py:module skip is taken when the entry is NOT yet present: the first entry is dropped instead of the duplicate")
    elif pyd:
        for t, pol in pyd:
            # the store runs iff t == pol; required: it runs iff not (type == "py:module" and already present)
            tvs = _type_vars(fi, R["type"])
            wrong = [(D and O, P) for D in (True, False) for O in (True, False) for P in (True, False) if (_dup_truth(t, tvs, D, O, P) == pol) != (not (D and O and P))]
            if not wrong:
                rep.ok("C18.R2", k, mod.site(t), "store skipped exactly when type == 'py:module' and already present")
            else:
                rep.violation("C18.R2", k, mod.site(t), f"the guard `{short(t, 60)}` does not skip exactly the already-present py:module entries (wrong for (is py:module, present) = {wrong})")
    else:
        rep.violation("C18.R2", k, mod.site(L.loop), "no skip path is guarded by `type == \"py:module\"`: of two py:module entries with one name the last wins, Sphinx keeps the first")
    # (b') the presence test looks into the entry's own [domain][objtype] table
    tvs_ = _type_vars(fi, R["type"])
    conts_tabs = [a[2] for _, member in dup for a in member]
    for t, _pol in pyd:
        for n_ in ast.walk(t):
            if isinstance(n_, ast.Compare):
                conts_tabs += [a[2] for a in _atom(n_, True) if a[0] == "in" and _is_table(a[2])]
    seen_tabs = set()
    for tab in conts_tabs:
        if unparse(tab) in seen_tabs:
            continue
        seen_tabs.add(unparse(tab))
        base_, keys_ = _access_chain(tab)
        if len(keys_) != 3 or _cstr(keys_[0]) != "objects":
            continue  # not a [domain][objtype] chain this rule can read; key kinds are R3's
        k = f"{fi.fq}|py:module duplicate rule|presence looked up in the entry's table"
        wrong = []
        for key_, const_, var_ in ((keys_[1], "py", tvs_.get("domain")), (keys_[2], "module", tvs_.get("objtype"))):
            c_ = _cstr(key_)
            if c_ is not None:
                if c_ != const_:
                    wrong.append(f"{c_!r} where {const_!r} is stored")
            elif not (isinstance(key_, ast.Name) and var_ is not None and key_.id == var_):
                wrong = None
                break
        if wrong is None:
            continue
        if wrong:
            rep.violation("C18.R2", k, mod.site(tab), f"the duplicate test `{short(tab, 70)}` looks for the name under {', '.join(wrong)}: it never finds the first py:module entry, so the last one wins (Sphinx keeps the first)")
        else:
            rep.ok("C18.R2", k, mod.site(tab))
    # (c) '$' expansion reaches the store
    loc, name = R["loc"], R["name"]
    val = _dict_value(item, "loc")
    k = f"{fi.fq}|$ expansion"

    def is_dollar_test(t) -> bool:
        return any(a[0] == "endswith" and _is_name(a[1], loc) and _cstr(a[2]) == "$" and a[3] for tt, p in facts(t, True) for a in _atom(tt, p))

    def is_expansion(v) -> bool:
        if isinstance(v, ast.BinOp) and isinstance(v.op, ast.Add) and _is_name(v.right, name):
            l = v.left
            if isinstance(l, ast.Subscript) and _is_name(l.value, loc) and isinstance(l.slice, ast.Slice) and l.slice.lower is None and l.slice.step is None and unparse(l.slice.upper or ast.Constant(0)) == "-1":
                return True
            if isinstance(l, ast.Call) and isinstance(l.func, ast.Attribute) and l.func.attr == "removesuffix" and _is_name(l.func.value, loc) and len(l.args) == 1 and _cstr(l.args[0]) == "$":
                return True
        return False

    loc_defs = [st for st in scope if isinstance(st, (ast.Assign, ast.AugAssign)) and st is not L.unpack and any(_is_name(n, loc) and isinstance(n.ctx, ast.Store) for n in ast.walk(st))]
    name_defs = [st for st in scope if isinstance(st, (ast.Assign, ast.AugAssign)) and st is not L.unpack and any(_is_name(n, name) and isinstance(n.ctx, ast.Store) for n in ast.walk(st))]
    if val is None:
        raise Unsupported(f"{fi.fq}: stored item has no literal \"loc\" entry")
    if name_defs or not _is_name(val, loc):
        raise Unsupported(f"{fi.fq}: name/location are re-assigned or stored in an unknown way")
    if not loc_defs:
        rep.violation("C18.R2", k, mod.site(store), "no `location.endswith(\"$\")` expansion precedes the store: the '$' shorthand is stored literally")
    else:
        for st in loc_defs:
            p = parent(st)
            tested = good = None
            sv = _inline(corpus, fi, st.value) if isinstance(st, ast.Assign) else None
            if isinstance(st, ast.Assign) and isinstance(sv, ast.IfExp) and _is_name(sv.orelse, loc):
                tested, good, anchor = is_dollar_test(sv.test), is_expansion(sv.body), st  # loc = loc[:-1] + name if loc.endswith("$") else loc
            elif isinstance(st, ast.Assign) and isinstance(sv, ast.IfExp) and _is_name(sv.body, loc):
                neg = ast.UnaryOp(op=ast.Not(), operand=sv.test)
                tested, good, anchor = is_dollar_test(neg), is_expansion(sv.orelse), st  # loc = loc if not loc.endswith("$") else loc[:-1] + name
            elif isinstance(st, ast.Assign) and isinstance(p, ast.If) and st in p.body:
                tested, good, anchor = is_dollar_test(p.test), is_expansion(sv), p
            elif isinstance(st, ast.Assign) and isinstance(sv, ast.Call) and mod.resolve(dotted(sv.func) or "") in ("re.sub", "re.subn") and len(sv.args) >= 3 and _is_name(sv.args[2], loc):
                pat_, repl = _cstr(sv.args[0]), sv.args[1]
                if isinstance(repl, ast.Lambda) and _is_name(repl.body, name) and pat_ in ("\\$$", "\\$\\Z", "[$]$", "[$]\\Z"):
                    rep.ok("C18.R2", k, mod.site(st), "trailing '$' replaced by the literal name")
                elif _mentions(repl, set(R.values())) and not isinstance(repl, ast.Lambda):
                    rep.violation("C18.R2", k, mod.site(st), f"`{short(sv, 60)}` uses the object name as a regex replacement template: a backslash or group reference in the name (\\1, \\g<..>) is expanded or raises re.error, Sphinx inserts the name literally (`location[:-1] + name`)")
                else:
                    raise Unsupported(f"{fi.fq}: '$' expansion through {short(sv, 50)} not understood")
                continue
            elif isinstance(st, ast.Assign) and isinstance(sv, ast.Call) and isinstance(sv.func, ast.Attribute) and sv.func.attr == "replace" and _is_name(sv.func.value, loc) and len(sv.args) >= 2 and _cstr(sv.args[0]) == "$" and not (isinstance(p, ast.If) and st in p.body):
                rep.violation("C18.R2", k, mod.site(st), f"`{short(sv, 60)}` replaces every '$' in the location, Sphinx expands only a trailing one")
                continue
            else:
                raise Unsupported(f"{fi.fq}: assignment to the location not understood: {short(st, 60)}")
            if not tested:
                if isinstance(anchor, ast.If) and anchor.test is not None and isinstance(anchor.test, ast.Constant):
                    rep.violation("C18.R2", k, mod.site(anchor), "the '$' expansion is disabled: the shorthand is stored literally")
                else:
                    raise Unsupported(f"{fi.fq}: the location is modified under a test other than endswith('$'): {short(anchor, 60)}")
            elif not good:
                rep.violation("C18.R2", k, mod.site(anchor), "the '$' shorthand is not expanded to `location[:-1] + name` as in Sphinx")
            elif not cfg.dominates(anchor, store):
                rep.violation("C18.R2", k, mod.site(anchor), "the '$' expansion does not precede the store on every path")
            else:
                rep.ok("C18.R2", k, mod.site(anchor), "location[:-1] + name, before the store")
    # (d) '-' / empty display name -> None, every other display name kept
    sentinel = _sentinel(A)
    tv = _dict_value(item, "text")
    if tv is None:
        raise Unsupported(f"{fi.fq}: stored item has no literal \"text\" entry")
    samples = ["", sentinel, "x"]
    probs = _text_problems(samples, _text_outcomes(fi, tv, store, scope, L.unpack, samples, corpus))
    k = f"{fi.fq}|display name sentinel"
    if not probs:
        rep.ok("C18.R2", k, mod.site(store), f"'' and {sentinel!r} -> None, anything else kept ({len(samples)} abstract values)")
    else:
        rep.violation("C18.R2", k, mod.site(store), f"display name handling differs from Sphinx/the item format ('' and {sentinel!r} -> None, everything else verbatim): " + "; ".join(probs))
    # (e) the entry is skipped only under Sphinx's skip conditions, stored at most once, and overwrites
    s_stores = [st for st in S.body_stmts if _sphinx_store_mode(A, st) is not None]
    if len(s_stores) != 1:
        raise Unsupported(f"{SIB}: entry store of {S.fi.qualname} not found")
    s_classes = {c for c, _, _ in _store_guard_classes(S.fi, S, s_stores[0])}
    if not s_classes <= {"MATCH", "COLON", "PYDUP"}:
        raise Unsupported(f"{SIB}: {S.fi.qualname} skips entries under conditions this rule does not know ({sorted(s_classes)})")
    for cls, t, pol in guards:
        k = f"{fi.fq}|store guarded by|{'' if pol else 'not '}{short(t, 60)}"
        if cls == "VACUOUS":
            rep.ok("C18.R2", k, mod.site(t), "always true: the regex group cannot match the empty string")
        elif cls in s_classes:
            rep.ok("C18.R2", k, mod.site(t), f"Sphinx's {cls} condition")
        elif cls == "FIELD":
            rep.violation("C18.R2", k, mod.site(t), f"the entry is only stored when `{'' if pol else 'not '}{short(t, 60)}`: Sphinx {A.sphinx_version} keeps every matched entry with a ':' in its type (except duplicate py:module), whatever its fields contain")
        else:
            raise Unsupported(f"{fi.fq}: the store is guarded by a condition this rule cannot judge: {short(t, 60)}")
    cnt = cfg.counts(("T", L.loop), [L.loop] + conts, lambda n: 1 if n is store else 0)
    k = f"{fi.fq}|entry stored at most once per line"
    worst = max((max(v) for v in cnt.values()), default=0)
    reach = store in cfg.reachable_from(("T", L.loop))
    if not reach:
        rep.violation("C18.R2", k, mod.site(store), "the store is unreachable from the loop head")
    elif worst <= 1 and cfg.loops.get(store) is L.loop:
        rep.ok("C18.R2", k, mod.site(store))
    else:
        rep.violation("C18.R2", k, mod.site(store), "an entry can be stored more than once for one line")
    k = f"{fi.fq}|duplicate entries"
    s_mode = _sphinx_store_mode(A, s_stores[0])
    if mode == s_mode:
        rep.ok("C18.R2", k, mod.site(store), mode)
    else:
        rep.violation("C18.R2", k, mod.site(store), f"`{short(store, 70)}`: of two entries with the same type and name {mode}; in Sphinx {A.sphinx_version} {s_mode} (only duplicate py:module entries keep the first)")
    rep.saw_function(fi.fq)
    rep.expect_min("C18.R2", 9, "2x2 split checks, py:module, $, sentinel, >=2 store guards, store count, duplicate mode")


def _items_key_var(fi: FunctionInfo) -> str:
    """the key variable of the outermost ``for k, v in <param>.items()`` loop."""
    for st in fi.node.body:
        if isinstance(st, ast.For) and isinstance(st.target, ast.Tuple) and len(st.target.elts) == 2 and isinstance(st.target.elts[0], ast.Name):
            it = st.iter
            if isinstance(it, ast.Call) and isinstance(it.func, ast.Attribute) and it.func.attr == "items" and isinstance(it.func.value, ast.Name) and it.func.value.id in fi.params:
                return st.target.elts[0].id
    raise Unsupported(f"{fi.fq}: no `for key, data in <param>.items()` loop")


def _sentinel(A: Anchors) -> str:
    """The display-name sentinel written by to_sphinx (``refdata["text"] or S``)."""
    fi = A.to_sphinx

    def is_text(e) -> bool:  # item["text"], item.get("text"), or a local assigned from one of them
        if isinstance(e, ast.Subscript):
            return _cstr(e.slice) == "text"
        if isinstance(e, ast.Call) and isinstance(e.func, ast.Attribute) and e.func.attr == "get" and e.args:
            return _cstr(e.args[0]) == "text"
        if isinstance(e, ast.Name):
            defs = [d for d in fi.local_nodes() if isinstance(d, ast.Assign) and any(_is_name(t, e.id) for t in d.targets)]
            return len(defs) == 1 and not isinstance(defs[0].value, ast.Name) and is_text(defs[0].value)
        return False

    c = []
    for n in fi.local_nodes():
        if isinstance(n, ast.BoolOp) and isinstance(n.op, ast.Or) and len(n.values) == 2 and _cstr(n.values[1]) is not None and is_text(n.values[0]):
            c.append(_cstr(n.values[1]))
        elif isinstance(n, ast.IfExp):
            # text if text else S / S if not text else text / S if text is None else text
            for keep, alt, pos in ((n.body, n.orelse, True), (n.orelse, n.body, False)):
                if is_text(keep) and _cstr(alt) is not None:
                    t = n.test
                    neg = False
                    while isinstance(t, ast.UnaryOp) and isinstance(t.op, ast.Not):
                        t, neg = t.operand, not neg
                    if isinstance(t, ast.Compare) and len(t.ops) == 1 and _is_none(t.comparators[0]) and isinstance(t.ops[0], (ast.Is, ast.IsNot)):
                        neg ^= isinstance(t.ops[0], ast.Is)
                        t = t.left
                    if is_text(t) and (not neg) == pos:
                        c.append(_cstr(alt))
    if len(c) != 1:
        raise Unsupported(f"{fi.fq}: `item[\"text\"] or <sentinel>` not found")
    return c[0]


# ---------------------------------------------------------------------------
# R3 key kinds (a small, flow-insensitive kind inference; DESIGN E8, local to this module)

DOMAIN, OBJTYPE, NAME, TYPE, CONST, CONFLICT = "DOMAIN", "OBJTYPE", "NAME", "DOMAIN:OBJTYPE", "CONST", "CONFLICT"
KEYS = {"M": [DOMAIN, OBJTYPE, NAME], "S": [TYPE, NAME]}  # MyST format / Sphinx format
REC = ("REC",)  # an InventoryType record: REC["objects"] is ("M", 0)
POISON = ("POISON",)


def _is_container(k) -> bool:
    return isinstance(k, tuple) and len(k) == 2 and k[0] in KEYS


class Kinds:
    def __init__(self, fi: FunctionInfo, seeds: dict[str, object], corpus: Corpus | None = None, depth: int = 0):
        self.fi = fi
        self.corpus = corpus
        self.depth = depth
        self.env: dict[str, object] = dict(seeds)
        self.checks: list[tuple[ast.AST, ast.AST, str, object]] = []  # (construct, key expr, expected, got)
        for _ in range(6):
            before = dict(self.env)
            self._bind_pass()
            if self.env == before:
                break
        else:
            raise Unsupported(f"{fi.fq}: kind inference does not stabilise")
        self._check_pass()

    # -- environment ---------------------------------------------------------
    def _join(self, name: str, k) -> None:
        if k is None or k == POISON:
            return
        old = self.env.get(name)
        if old is None or old == CONST:
            self.env[name] = k
        elif k == CONST or k == old:
            return
        else:
            self.env[name] = CONFLICT

    def _bind(self, target, k) -> None:
        if isinstance(target, ast.Name):
            self._join(target.id, k)
        elif isinstance(target, (ast.Tuple, ast.List)) and isinstance(k, tuple) and k and k[0] == "TUPLE" and len(k) - 1 == len(target.elts):
            for t, kk in zip(target.elts, k[1:]):
                self._bind(t, kk)

    def _bind_pass(self) -> None:
        for n in self.fi.local_nodes():
            if isinstance(n, ast.Assign):
                k = self.kind(n.value)
                for t in n.targets:
                    self._bind(t, k)
            elif isinstance(n, ast.AnnAssign) and n.value is not None:
                self._bind(n.target, self.kind(n.value))
            elif isinstance(n, (ast.For, ast.comprehension)):
                self._bind(n.target, self._elem_kind(self.kind(n.iter)))

    def _elem_kind(self, k):
        if _is_container(k):
            return self._keykind(k)
        if isinstance(k, tuple) and k and k[0] == "ITEMS":
            return ("TUPLE", self._keykind(k[1]), self._down(k[1]))
        if isinstance(k, tuple) and k and k[0] == "KEYS":
            return self._keykind(k[1])
        if isinstance(k, tuple) and k and k[0] == "VALUES":
            return self._down(k[1])
        if isinstance(k, tuple) and k and k[0] == "GEN":
            return k[1]
        return None

    def _generator_kind(self, call: ast.Call):
        """("GEN", kind of what a private generator helper yields), parameter kinds taken from this call."""
        if self.corpus is None or self.depth >= 2:
            return None
        t = _callee(self.corpus, self.fi, call)
        if t is None or t.is_lambda or not t.is_generator() or t.fq == self.fi.fq:
            return None
        seeds = _kind_seeds(self.corpus, t, {})
        for p_ in t.params:
            a = _param_arg(t, call, p_)
            k_ = self.kind(a) if a is not None else None
            if k_ is not None and k_ != POISON and k_ != CONFLICT:
                seeds[p_] = k_
        sub = Kinds(t, seeds, self.corpus, self.depth + 1)
        ys = {sub.kind(n.value) if not isinstance(n.value, ast.Tuple) else ("TUPLE",) + tuple(sub.kind(e) for e in n.value.elts) for n in t.local_nodes() if isinstance(n, ast.Yield) and n.value is not None}
        return ("GEN", ys.pop()) if len(ys) == 1 else None

    @staticmethod
    def _keykind(c):
        fam, d = c
        return KEYS[fam][d] if d < len(KEYS[fam]) else None

    @staticmethod
    def _down(c):
        fam, d = c
        return (fam, d + 1)

    # -- expression kinds (pure) ---------------------------------------------------
    def kind(self, e):
        if e is None:
            return None
        if isinstance(e, ast.Name):
            if e.id in self.env:
                return self.env[e.id]
            v = _const(e)
            return (TYPE if ":" in v else CONST) if isinstance(v, str) else None
        if isinstance(e, ast.Constant):
            if isinstance(e.value, str):
                return TYPE if ":" in e.value else CONST
            return None
        if isinstance(e, ast.Subscript):
            kv = self.kind(e.value)
            if kv == REC:
                return ("M", 0) if _cstr(e.slice) == "objects" else None
            if _is_container(kv):
                return self._index(kv, e.slice)
            return None
        if isinstance(e, ast.Call) and isinstance(e.func, (ast.Name, ast.Attribute)) and not isinstance(getattr(e.func, "value", None), ast.Call):
            # a record built from fields: _InvEntry(name, domain, objtype, ...) -> kinds per field
            fields = _record_fields(self.fi.module, e.func) if dotted(e.func) else None
            if fields and not any(isinstance(a_, ast.Starred) for a_ in e.args):
                fx = dict(zip(fields, e.args))
                fx.update({kw.arg: kw.value for kw in e.keywords if kw.arg})
                return ("RECV", tuple(sorted((f_, self.kind(x_)) for f_, x_ in fx.items() if isinstance(self.kind(x_), str))))
        if isinstance(e, ast.Call) and isinstance(e.func, ast.Name):
            g = self._generator_kind(e)
            if g is not None:
                return g
        if isinstance(e, ast.Attribute):
            kv = self.kind(e.value)
            if isinstance(kv, tuple) and kv and kv[0] == "RECV":
                return dict(kv[1]).get(e.attr)
            return None
        if isinstance(e, ast.Call) and isinstance(e.func, ast.Attribute):
            recv = self.kind(e.func.value)
            a = e.func.attr
            if _is_container(recv):
                if a in ("setdefault", "get", "pop") and e.args:
                    return self._index(recv, e.args[0])
                if a == "items" and not e.args:
                    return ("ITEMS", recv)
                if a == "keys" and not e.args:
                    return ("KEYS", recv)
                if a == "values" and not e.args:
                    return ("VALUES", recv)
                return None
            if recv == REC and a == "get" and e.args and _cstr(e.args[0]) == "objects":
                return ("M", 0)
            if recv == TYPE and a in ("split", "rsplit") and e.args and _cstr(e.args[0]) == ":":
                # where the string is cut (first/last ':', maxsplit) is judged by R2; the parts are (domain, objtype)
                ms = arg_or_kw(e, 1, "maxsplit")
                if ms is not None and _const(ms) == 1:
                    return ("TUPLE", DOMAIN, OBJTYPE)
                return None
            if recv == TYPE and a in ("partition", "rpartition") and len(e.args) == 1 and _cstr(e.args[0]) == ":":
                return ("TUPLE", DOMAIN, CONST, OBJTYPE)
            return None
        if isinstance(e, (ast.JoinedStr, ast.BinOp)):
            parts = self._parts(e)
            if parts is None:
                return None
            if parts == [DOMAIN, ":", OBJTYPE]:
                return TYPE
            if any(p in (DOMAIN, OBJTYPE, NAME, TYPE) for p in parts):
                return "<" + "".join(p if len(p) == 1 else "{" + p + "}" for p in parts) + ">"
            return None
        if isinstance(e, ast.IfExp):
            a, b = self.kind(e.body), self.kind(e.orelse)
            return a if a == b else None
        return None

    def _parts(self, e) -> list | None:
        if isinstance(e, ast.JoinedStr):
            out = []
            for v in e.values:
                if isinstance(v, ast.Constant):
                    out.append(str(v.value))
                elif isinstance(v, ast.FormattedValue) and v.format_spec is None and v.conversion == -1:
                    k = self.kind(v.value)
                    if not isinstance(k, str):
                        return None
                    out.append(k)
                else:
                    return None
            return out
        if isinstance(e, ast.BinOp) and isinstance(e.op, ast.Add):
            l, r = self._parts(e.left), self._parts(e.right)
            return None if l is None or r is None else l + r
        if isinstance(e, ast.Constant) and isinstance(e.value, str):
            return [e.value]
        k = self.kind(e)
        return [k] if isinstance(k, str) else None

    def _index(self, c, key):
        exp = self._keykind(c)
        if exp is None:
            return None  # below the key levels (item dict / tuple)
        got = self.kind(key)
        if got == CONST or got == exp:
            return self._down(c)
        return POISON

    # -- checks (one per construct) ----------------------------------------------
    def _check_pass(self) -> None:
        for n in self.fi.local_nodes():
            if isinstance(n, ast.Subscript):
                self._check(n, self.kind(n.value), n.slice)
            elif isinstance(n, ast.Call) and isinstance(n.func, ast.Attribute) and n.func.attr in ("setdefault", "get", "pop") and n.args:
                self._check(n, self.kind(n.func.value), n.args[0])
            elif isinstance(n, ast.Compare) and len(n.ops) == 1 and isinstance(n.ops[0], (ast.In, ast.NotIn)):
                self._check(n, self.kind(n.comparators[0]), n.left)

    def _check(self, node, ck, key) -> None:
        if not _is_container(ck):
            return
        exp = self._keykind(ck)
        if exp is None:
            return
        self.checks.append((node, key, exp, self.kind(key)))


def _callee(corpus: Corpus, fi: FunctionInfo, call: ast.Call) -> FunctionInfo | None:
    """The function a call denotes when it is a module-level function of the same module, an imported
    package function, or ``self.m`` / ``cls.m`` of the enclosing class (also in sibling sources)."""
    f = call.func
    if isinstance(f, ast.Name):
        if f.id in fi.module.functions:
            return fi.module.functions[f.id]
        return corpus.find_function(fi.module.resolve(f.id))
    if isinstance(f, ast.Attribute) and isinstance(f.value, ast.Name) and f.value.id in ("self", "cls"):
        owner = fi
        while owner is not None and owner.cls is None:
            owner = owner.parent_func
        if owner is not None:
            return fi.module.functions.get(f"{owner.cls.name}.{f.attr}")
    d = dotted(f)
    return corpus.find_function(fi.module.resolve(d)) if d else None


def _callees(corpus: Corpus, fi: FunctionInfo) -> list[tuple[ast.Call, FunctionInfo]]:
    out = []
    for c in fi.local_nodes():
        if isinstance(c, ast.Call):
            t = _callee(corpus, fi, c)
            if t is not None and t.fq != fi.fq and not t.is_lambda:
                out.append((c, t))
    out.sort(key=lambda ct: (ct[0].lineno, ct[0].col_offset))
    return out


def _param_arg(callee: FunctionInfo, call: ast.Call, name: str):
    """The argument expression a call passes for parameter ``name`` of ``callee`` (None if defaulted/unknown)."""
    params = list(callee.params)
    if params and params[0] in ("self", "cls") and isinstance(call.func, ast.Attribute):
        params = params[1:]
    for kw in call.keywords:
        if kw.arg == name:
            return kw.value
    if name in params:
        i = params.index(name)
        if i < len(call.args) and not any(isinstance(a, ast.Starred) for a in call.args[: i + 1]):
            return call.args[i]
    return None


def _clone(node, mapping: dict):
    """Copy of an expression with parameter names replaced by the call's argument nodes (no parent links
    are followed; ``_mod`` is kept so that hoisted constants still resolve)."""
    if isinstance(node, ast.Name) and isinstance(node.ctx, ast.Load) and node.id in mapping:
        return mapping[node.id]
    if not isinstance(node, ast.AST):
        return node
    if isinstance(node, ast.Attribute) and isinstance(node.ctx, ast.Load):
        v = _clone(node.value, mapping)
        if isinstance(v, ast.Call):  # entry.domain with entry := _InvEntry(name, domain, ...)
            mod = getattr(v, "_mod", None) or getattr(node, "_mod", None)
            fields = _record_fields(mod, v.func) if mod is not None else None
            if fields and node.attr in fields and not any(isinstance(a, ast.Starred) for a in v.args):
                fx = dict(zip(fields, v.args))
                fx.update({kw.arg: kw.value for kw in v.keywords if kw.arg})
                if node.attr in fx:
                    return fx[node.attr]
    new = type(node)()
    for f in node._fields:
        v = getattr(node, f, None)
        if isinstance(v, list):
            setattr(new, f, [_clone(x, mapping) for x in v])
        else:
            setattr(new, f, _clone(v, mapping))
    for a in ("lineno", "col_offset", "end_lineno", "end_col_offset", "_mod"):
        if hasattr(node, a):
            setattr(new, a, getattr(node, a))
    return new


def _body_to_expr(stmts: list):
    """``if T: return A`` ... ``return B`` (no other statements) as one conditional expression."""
    stmts = [st for st in stmts if not (isinstance(st, ast.Expr) and isinstance(st.value, ast.Constant))]
    if not stmts:
        return None
    st = stmts[0]
    if isinstance(st, ast.Return) and st.value is not None:
        return st.value
    if isinstance(st, ast.If):
        a = _body_to_expr(st.body)
        b = _body_to_expr(list(st.orelse) + list(stmts[1:]))
        if a is None or b is None:
            return None
        x = ast.IfExp(test=st.test, body=a, orelse=b)
        x._mod = getattr(st, "_mod", None)
        x.lineno, x.col_offset = st.lineno, st.col_offset
        return x
    return None


def _inline(corpus: Corpus, fi: FunctionInfo, e, depth: int = 0):
    """``e`` itself, or - when it is a call of a private helper whose body is a chain of guarded returns -
    the returned expression with the arguments substituted (two levels)."""
    if not isinstance(e, ast.Call) or depth > 2:
        return e
    t = _callee(corpus, fi, e)
    if t is None:
        return e
    x = t.node.body if t.is_lambda else _body_to_expr(list(t.node.body))
    if x is None:
        return e
    mapping = {}
    args = t.node.args
    defaults = dict(zip([a.arg for a in (args.posonlyargs + args.args)][len(args.posonlyargs + args.args) - len(args.defaults):], args.defaults))
    for p in t.params:
        if p in ("self", "cls") and isinstance(e.func, ast.Attribute):
            continue
        a = _param_arg(t, e, p)
        if a is None:
            a = defaults.get(p)
        if a is None:
            return e
        mapping[p] = a
    out = _clone(x, mapping)
    # helpers calling helpers
    for n in list(ast.walk(out)):
        if isinstance(n, ast.Call) and n is not out and _callee(corpus, t, n) is not None:
            return out  # nested helper calls are left alone
    return _inline(corpus, t, out, depth + 1) if isinstance(out, ast.Call) else out


def _returns_record(corpus: Corpus, f: FunctionInfo, depth: int = 0) -> bool:
    """Does ``f`` return an InventoryType record (annotation, dict literal with "objects", or a helper's)?"""
    if f.is_lambda or depth > 2:
        return False
    if _ann_text(f.node.returns) == "InventoryType":
        return True
    for n in f.local_nodes():
        if isinstance(n, ast.Return) and n.value is not None:
            if isinstance(n.value, ast.Dict) and _dict_value(n.value, "objects") is not None:
                return True
            if isinstance(n.value, ast.Call):
                t = _callee(corpus, f, n.value)
                if t is not None and _returns_record(corpus, t, depth + 1):
                    return True
    return False


def _ann_text(a) -> str:
    if a is None:
        return ""
    return unparse(a).strip("'\"")


def _kind_seeds(corpus: Corpus, fi: FunctionInfo, extra: dict[str, object]) -> dict[str, object]:
    seeds: dict[str, object] = dict(extra)
    args = fi.node.args
    for a in args.posonlyargs + args.args + args.kwonlyargs:
        t = _ann_text(a.annotation)
        if t == "InventoryType":
            seeds[a.arg] = REC
        elif t in ("SphinxInventoryType", "Inventory"):
            seeds[a.arg] = ("S", 0)
    ret = _ann_text(fi.node.returns)
    for n in fi.local_nodes():
        if isinstance(n, (ast.Assign, ast.AnnAssign)) and isinstance(n.value, ast.Dict) and _dict_value(n.value, "objects") is not None:
            for t in n.targets if isinstance(n, ast.Assign) else [n.target]:
                if isinstance(t, ast.Name):
                    seeds[t.id] = REC
        elif isinstance(n, ast.AnnAssign) and isinstance(n.target, ast.Name) and _ann_text(n.annotation) == "InventoryType":
            seeds[n.target.id] = REC
        elif isinstance(n, (ast.Assign, ast.AnnAssign)) and isinstance(n.value, ast.Call):
            # record built by a private helper: invdata = _read_project_header(stream, base_url)
            t_ = _callee(corpus, fi, n.value)
            if t_ is not None and _returns_record(corpus, t_):
                for t in n.targets if isinstance(n, ast.Assign) else [n.target]:
                    if isinstance(t, ast.Name):
                        seeds[t.id] = REC
        if isinstance(n, ast.Return) and n.value is not None:
            if isinstance(n.value, ast.Dict):
                v = _dict_value(n.value, "objects")
                if isinstance(v, ast.Name):
                    seeds[v.id] = ("M", 0)
            elif isinstance(n.value, ast.Name) and ret in ("SphinxInventoryType", "Inventory"):
                seeds[n.value.id] = ("S", 0)
    return seeds


def _v1_split_source(fi: FunctionInfo, v):
    """(split call, fields variable or None, slice or None) for the value unpacked into the three v1 fields:
    ``<line>.split(...)``, ``fields`` / ``fields[:3]`` with ``fields = <line>.split(...)``, or ``<..>.split(...)[:3]``."""
    sl = None
    if isinstance(v, ast.Subscript) and isinstance(v.slice, ast.Slice):
        sl, v = v.slice, v.value
    var = None
    if isinstance(v, ast.Name):
        defs = [d for d in fi.local_nodes() if isinstance(d, ast.Assign) and any(_is_name(t, v.id) for t in d.targets)]
        if len(defs) != 1:
            return None
        var, v = v.id, defs[0].value
    if isinstance(v, ast.Call) and isinstance(v.func, ast.Attribute) and v.func.attr == "split":
        return v, var, sl
    return None


def _v1_unpack(fi: FunctionInfo):
    """The statement that unpacks a v1 line into (name, objtype, location)."""
    for st in fi.local_nodes():
        if isinstance(st, ast.Assign) and isinstance(st.targets[0], ast.Tuple) and len(st.targets[0].elts) == 3 and all(isinstance(e, ast.Name) for e in st.targets[0].elts):
            if _v1_split_source(fi, st.value) is not None:
                return st
    raise Unsupported(f"{fi.fq}: `name, type, location = line.split(None, 2)` not found")


def _v1_split_chain(fi: FunctionInfo, un: ast.Assign):
    """(base expr, canonical chain) of how a v1 line becomes three fields: method calls on the line, the split
    written as ("split", (sep, maxsplit)), and a trailing ("[:n]", ...) when only the first n words are taken."""
    call, var, sl = _v1_split_source(fi, un.value)
    base, chain = _method_chain(call)
    sep = arg_or_kw(call, 0, "sep")
    ms = arg_or_kw(call, 1, "maxsplit")
    sep_t = "None" if sep is None or _is_none(sep) else unparse(sep)
    ms_v = -1 if ms is None else _const(ms)
    if ms_v is _NOCONST:
        raise Unsupported(f"{fi.fq}: maxsplit of the v1 split is not a constant")
    pre = chain[:-1]
    if sep_t == "None":  # split(None, ...) ignores leading white space: strip() == rstrip(), lstrip() is a no-op
        pre = [("rstrip", a) if m == "strip" and not a else (m, a) for m, a in pre if not (m == "lstrip" and not a)]
    chain = pre + [("split", (sep_t, str(ms_v)))]
    if sl is not None:
        if sl.lower is not None or sl.step is not None or sl.upper is None:
            raise Unsupported(f"{fi.fq}: slice of the v1 fields not understood")
        chain.append(("[:n]", (unparse(sl.upper),)))
    return base, chain, var


@rule("C18.R3")
def r3_key_kinds(corpus: Corpus, rep: Report, tier: str):
    corpus = _view(corpus)
    rep.rule("C18.R3", "every key used on objects[DOMAIN][OBJTYPE][NAME] / sphinx[DOMAIN:OBJTYPE][NAME] has the kind of its depth")
    A = _anchors(corpus)
    L = _myst_loop(corpus)
    u1 = _v1_unpack(A.v1).targets[0].elts
    plan = [
        (A.v2, {L.roles["name"]: NAME, L.roles["type"]: TYPE}),
        (A.v1, {u1[0].id: NAME, u1[1].id: OBJTYPE}),
        (A.from_sphinx, {}),
        (A.to_sphinx, {}),
    ]
    planned = {f.fq for f, _ in plan}
    work = list(plan)
    done = set()
    while work:
        fi, extra = work.pop(0)
        if fi.fq in done:
            continue
        done.add(fi.fq)
        rep.saw_function(fi.fq)
        kinds = Kinds(fi, _kind_seeds(corpus, fi, extra), corpus)
        delegated = False
        # private helpers that receive the table or keys: parameter kinds come from the call site
        for call, t in _callees(corpus, fi):
            if t.fq in done or t.fq in planned or t.module is not fi.module or t.cls is not None:
                continue
            pk = {}
            for p_ in t.params:
                a = _param_arg(t, call, p_)
                k_ = kinds.kind(a) if a is not None else None
                if k_ is not None and k_ != POISON and k_ != CONFLICT:
                    pk[p_] = k_
            if any(k_ == REC or _is_container(k_) for k_ in pk.values()):
                # record parameters annotated with a NamedTuple/dataclass whose argument kind is unknown here
                # (e.g. the value of another helper) would only produce "unknown kind": leave those to the view
                work.append((t, pk))
                delegated = True
        if not kinds.checks and fi.fq in planned and not delegated:
            raise Unsupported(f"{fi.fq}: no access to an inventory dictionary was typed")
        seen = set()
        for node, key, exp, got in kinds.checks:
            k = f"{fi.fq}|{short(node, 80)}|{exp} key"
            if k in seen:
                continue
            seen.add(k)
            site = fi.module.site(node)
            if got == exp:
                rep.ok("C18.R3", k, site)
            elif got == CONST:
                rep.ok("C18.R3", k, site, "constant key")
            elif got is None or got == CONFLICT or got == POISON:
                rep.error("C18.R3", f"{site}: kind of key `{short(key, 40)}` in `{short(node, 60)}` unknown ({got})")
            else:
                rep.violation(
                    "C18.R3",
                    f"{fi.fq}|{short(node, 80)}|{got} used as {exp} key",
                    site,
                    f"`{short(key, 40)}` is a {got} value but this level of the table is keyed by {exp}: the lookup `{short(node, 70)}` can never find what the stores put there",
                )
    rep.expect_min("C18.R3", 8, "typed dictionary accesses in _load_v1, _load_v2, from_sphinx, to_sphinx")


# ---------------------------------------------------------------------------
# R4 buffer conservation in the reader

PROBE_METHODS = {"find", "rfind", "index", "rindex", "count", "startswith", "endswith"}


def _own_exprs(st) -> list:
    """The expressions a CFG statement node stands for (compound statements: header only)."""
    if isinstance(st, (ast.If, ast.While)):
        return [st.test]
    if isinstance(st, ast.For):
        return [st.iter]
    if isinstance(st, ast.With):
        return [i.context_expr for i in st.items]
    if isinstance(st, (ast.Try, ast.FunctionDef, ast.AsyncFunctionDef, ast.ClassDef)):
        return []
    return [st]


class BufName(str):
    """A buffer known under several local names: the carry (``pending``) and the work copy it is extended into
    (``data = pending + chunk``). Prints as the carry's name."""

    names: frozenset = frozenset()

    def __new__(cls, carry: str, names):
        o = super().__new__(cls, carry)
        o.names = frozenset(names) | {carry}
        return o


def _is_b(n, b: str) -> bool:
    return isinstance(n, (ast.Name, ast.Attribute)) and unparse(n) in getattr(b, "names", (b,))


def _empty_bytes(e) -> bool:
    v = _const(e) if e is not None else _NOCONST
    return isinstance(v, (bytes, str)) and len(v) == 0


class StmtBuf:
    """What one statement does to one buffer."""

    def __init__(self, st, b: str, where: str):
        self.st = st
        self.store = None  # "append" | "reset" | ("drop", lower) | "other"
        self.whole: list = []
        self.prefix: list = []  # upper bound expressions
        self.finds: list = []  # separator constants probed with find()
        skip = set()
        tg = st.targets if isinstance(st, ast.Assign) else [st.target] if isinstance(st, (ast.AugAssign, ast.AnnAssign)) else st.targets if isinstance(st, ast.Delete) else []
        val = getattr(st, "value", None) if isinstance(st, (ast.Assign, ast.AugAssign, ast.AnnAssign)) else None
        hit = [t for t in tg if any(_is_b(n, b) for n in ast.walk(t))]
        self.moved_whole = False
        if hit and isinstance(st, ast.Assign) and len(tg) == 1 and isinstance(tg[0], (ast.Tuple, ast.List)) and isinstance(val, (ast.Tuple, ast.List)) and len(val.elts) == len(tg[0].elts) and sum(1 for t in tg[0].elts if _is_b(t, b)) == 1 and not any(isinstance(x, ast.Starred) for x in list(tg[0].elts) + list(val.elts)):
            # parallel assignment: every right-hand side is evaluated first
            for t_, v_ in zip(tg[0].elts, val.elts):
                if _is_b(t_, b):
                    if _empty_bytes(v_):
                        self.store = "reset"
                    elif _is_b(v_, b):
                        pass
                    elif any(_is_b(n, b) for n in ast.walk(v_)):
                        raise Unsupported(f"{where}: store to {b} not understood: {short(st, 60)}")
                    else:
                        self.store = "other"
                elif _is_b(v_, b):
                    if not isinstance(t_, (ast.Name, ast.Attribute)):
                        raise Unsupported(f"{where}: store to {b} not understood: {short(st, 60)}")
                    self.whole.append(v_)  # the whole buffer is handed on under another name
                    self.moved_whole = True
                    skip.add(v_)
                elif any(_is_b(n, b) for n in ast.walk(v_)):
                    raise Unsupported(f"{where}: store to {b} not understood: {short(st, 60)}")
            hit = []
        if hit:
            if len(tg) != 1 or not _is_b(tg[0], b):
                raise Unsupported(f"{where}: store to {b} not understood: {short(st, 60)}")
            if isinstance(st, ast.Delete):
                self.store = "other"
            elif isinstance(st, ast.AugAssign):
                if not isinstance(st.op, ast.Add):
                    raise Unsupported(f"{where}: store to {b} not understood: {short(st, 60)}")
                self.store = "append"
            elif val is None:
                pass
            elif isinstance(st, ast.Assign) and _is_b(val, b):
                skip.add(val)  # pending = data: the same bytes under the buffer's other name, nothing is stored or consumed
            elif _empty_bytes(val) or (isinstance(val, ast.Attribute) and val.attr == "unconsumed_tail"):
                self.store = "reset"  # b"" or what the decompressor has not processed yet of the consumed buffer
            elif isinstance(val, ast.Subscript) and _is_b(val.value, b) and isinstance(val.slice, ast.Slice) and val.slice.lower is not None and val.slice.upper is None and val.slice.step is None:
                self.store = ("drop", val.slice.lower)
                skip.add(val.value)
            elif isinstance(val, ast.BinOp) and isinstance(val.op, ast.Add) and _is_b(val.left, b):
                self.store = "append"
                skip.add(val.left)
            elif any(_is_b(n, b) for n in ast.walk(val)):
                raise Unsupported(f"{where}: store to {b} not understood: {short(st, 60)}")
            else:
                self.store = "other"
        for root in _own_exprs(st):
            for n in ast.walk(root):
                if not _is_b(n, b) or not isinstance(getattr(n, "ctx", None), ast.Load) or n in skip:
                    continue
                p = parent(n)
                if isinstance(p, ast.Attribute) and p.value is n:
                    call = parent(p)
                    if isinstance(call, ast.Call) and call.func is p and p.attr in PROBE_METHODS:
                        if p.attr in ("find", "rfind") and len(call.args) in (1, 2) and _const(call.args[0]) is not _NOCONST:
                            self.finds.append(_const(call.args[0]))
                        continue
                    if isinstance(call, ast.Call) and call.func is p and p.attr == "decode":
                        self.whole.append(n)
                        continue
                    if isinstance(p, ast.Attribute) and _is_b(p, b):
                        continue  # ``self`` inside ``self.buffer`` never matches; defensive
                    raise Unsupported(f"{where}: use of {b} not understood: {short(p, 50)}")
                if isinstance(p, ast.Subscript) and p.value is n:
                    s = p.slice
                    if isinstance(s, ast.Slice) and s.lower is None and s.upper is not None and s.step is None:
                        self.prefix.append(s.upper)
                        continue
                    raise Unsupported(f"{where}: slice of {b} not understood: {short(p, 50)}")
                if isinstance(p, ast.Call) and n in p.args:
                    if dotted(p.func) == "len":
                        continue
                    self.whole.append(n)
                    continue
                if isinstance(p, (ast.Yield, ast.Return)):
                    self.whole.append(n)
                    continue
                if isinstance(p, (ast.If, ast.While, ast.BoolOp, ast.Compare)) or (isinstance(p, ast.UnaryOp) and isinstance(p.op, ast.Not)):
                    continue
                raise Unsupported(f"{where}: use of {b} not understood: {short(p, 50)}")

    def events(self) -> set:
        ev = set()
        if self.store == "append":
            ev.add("append")
        elif self.store is not None:
            ev.add("store")
        if self.whole or self.prefix:
            ev.add("use")
        return ev


def _name_defs(stmts, name: str) -> list:
    """[(statement, value expr)] for every binding of ``name``: plain assignment, or a walrus in the
    expressions the statement node stands for (``while (pos := buf.find(sep)) == -1 and ...``)."""
    out = []
    for d in stmts:
        if isinstance(d, ast.Assign) and any(_is_name(t, name) for t in d.targets):
            out.append((d, d.value))
        elif isinstance(d, (ast.AugAssign, ast.AnnAssign)) and _is_name(d.target, name):
            out.append((d, None))
        elif isinstance(d, ast.stmt):
            for root in _own_exprs(d):
                for x in ast.walk(root):
                    if isinstance(x, ast.NamedExpr) and _is_name(x.target, name):
                        out.append((d, x.value))
    return out


def _strip_walrus(t):
    return t.target if isinstance(t, ast.NamedExpr) else t


def _guards_imply(guards, want: str) -> bool:
    """Do the branch facts force the expression ``want`` (source text) to be true? Propositional reasoning over
    the atomic tests (walrus targets stand for their value, ``a != b`` is ``not a == b``), by truth table."""
    atoms: list[str] = []

    def build(t):
        if isinstance(t, ast.UnaryOp) and isinstance(t.op, ast.Not):
            return ("not", build(t.operand))
        if isinstance(t, ast.BoolOp):
            return ("and" if isinstance(t.op, ast.And) else "or", [build(v) for v in t.values])
        neg = False
        if isinstance(t, ast.Compare) and len(t.ops) == 1:
            l, r = _strip_walrus(t.left), _strip_walrus(t.comparators[0])
            if isinstance(t.ops[0], (ast.NotEq, ast.IsNot, ast.NotIn)):
                neg = True
                op = {ast.NotEq: "==", ast.IsNot: "is", ast.NotIn: "in"}[type(t.ops[0])]
            else:
                op = {ast.Eq: "==", ast.Is: "is", ast.In: "in"}.get(type(t.ops[0]), type(t.ops[0]).__name__)
            text = f"{unparse(l)} {op} {unparse(r)}"
        else:
            text = unparse(_strip_walrus(t))
        if text not in atoms:
            atoms.append(text)
        return ("not", ("atom", text)) if neg else ("atom", text)

    def ev(f, val):
        if f[0] == "atom":
            return val[f[1]]
        if f[0] == "not":
            return not ev(f[1], val)
        vs = [ev(x, val) for x in f[1]]
        return all(vs) if f[0] == "and" else any(vs)

    forms = [(build(t), pol) for t, pol in guards]
    if want not in atoms:
        return False
    if len(atoms) > 10:
        return False
    for bits in range(1 << len(atoms)):
        val = {a: bool(bits >> i & 1) for i, a in enumerate(atoms)}
        if all(ev(f, val) == pol for f, pol in forms) and not val[want]:
            return False
    return True


def _reach(cfg, starts, stop: set, fwd: bool = True) -> set:
    seen = set()
    work = list(starts)
    edges = cfg.succ if fwd else cfg.pred
    while work:
        n = work.pop()
        if n in seen or n in stop:
            continue
        seen.add(n)
        work.extend(edges.get(n, []))
    return seen


def _between(cfg, a, b) -> set:
    return _reach(cfg, cfg.succ.get(a, []), {a, b}) & _reach(cfg, cfg.pred.get(b, []), {a, b}, False)


def _empty_edge(n, b: str) -> bool:
    """CFG edge node on which buffer/chunk ``b`` is known to be empty."""
    if not (isinstance(n, tuple) and n[0] in ("T", "F") and isinstance(n[1], (ast.If, ast.While))):
        return False
    for t, pol in facts(n[1].test, n[0] == "T"):
        if _is_b(t, b) and not pol:
            return True
        if pol and isinstance(t, ast.Compare) and _emptiness_expr(t, b, "\0"):
            return True
        for a in _atom(t, pol):
            if a[0] == "eq" and a[3] and ((_is_b(a[1], b) and _empty_bytes(a[2])) or (_is_b(a[2], b) and _empty_bytes(a[1]))):
                return True
    return False


def _emptiness_expr(v, chunk: str, eof: str) -> bool:
    """``not chunk`` / ``chunk == b""`` / ``len(chunk) == 0`` (optionally or-ed with the flag itself)."""
    if isinstance(v, ast.BoolOp) and isinstance(v.op, ast.Or):
        rest = [x for x in v.values if unparse(x) != eof]
        return len(rest) == 1 and _emptiness_expr(rest[0], chunk, eof)
    if isinstance(v, ast.UnaryOp) and isinstance(v.op, ast.Not) and _is_name(v.operand, chunk):
        return True
    if isinstance(v, ast.Compare) and len(v.ops) == 1 and isinstance(v.ops[0], ast.Eq):
        l, r = v.left, v.comparators[0]
        if (_is_name(l, chunk) and _empty_bytes(r)) or (_is_name(r, chunk) and _empty_bytes(l)):
            return True
        for a, b in ((l, r), (r, l)):
            if isinstance(a, ast.Call) and dotted(a.func) == "len" and len(a.args) == 1 and _is_name(a.args[0], chunk) and _const(b) == 0:
                return True
    return False


class ReaderModel:
    def __init__(self, corpus: Corpus):
        A = _anchors(corpus)
        self.ci = ci = A.reader
        init = ci.methods.get("__init__")
        if init is None:
            raise AnchorMissing(f"{ci.fq}.__init__ not found")
        battrs, eattrs = [], []
        for st in init.local_nodes():
            if isinstance(st, ast.Assign) and len(st.targets) == 1 and isinstance(st.targets[0], ast.Attribute) and _is_name(st.targets[0].value, "self") and isinstance(st.value, ast.Constant):
                if isinstance(st.value.value, bytes):
                    battrs.append(st.targets[0].attr)
                elif isinstance(st.value.value, bool):
                    eattrs.append(st.targets[0].attr)
        if len(battrs) != 1 or len(eattrs) != 1:
            raise AnchorMissing(f"{ci.fq}: expected one bytes buffer and one eof flag initialised in __init__, found {battrs} / {eattrs}")
        self.B = f"self.{battrs[0]}"
        self.E = f"self.{eattrs[0]}"
        self.methods = [m for m in ci.methods.values() if not m.is_lambda]
        # per method, per statement
        self.info: dict[tuple[str, str], dict] = {}
        self.summ: dict[str, set] = {}
        for m in self.methods:
            inf = self._scan(m, self.B)
            self.summ[m.name] = set().union(*[i.events() for i in inf.values()]) if inf else set()
        changed = True
        while changed:
            changed = False
            for m in self.methods:
                for c in m.local_nodes():
                    if isinstance(c, ast.Call) and isinstance(c.func, ast.Attribute) and _is_name(c.func.value, "self") and c.func.attr in self.summ:
                        new = self.summ[m.name] | self.summ[c.func.attr]
                        if new != self.summ[m.name]:
                            self.summ[m.name] = new
                            changed = True
        # local line buffers
        self.locals: list[tuple[FunctionInfo, str]] = []
        for m in self.methods:
            names = set()
            for st in m.local_nodes():
                if isinstance(st, ast.Assign) and len(st.targets) == 1 and isinstance(st.targets[0], ast.Name) and isinstance(st.value, ast.Constant) and isinstance(st.value.value, bytes):
                    names.add(st.targets[0].id)
            for nm in sorted(names):
                alias = set()
                for st in m.local_nodes():  # data = pending + chunk: the work copy of the carry
                    if isinstance(st, ast.Assign) and len(st.targets) == 1 and isinstance(st.targets[0], ast.Name) and isinstance(st.value, ast.BinOp) and isinstance(st.value.op, ast.Add) and _is_name(st.value.left, nm) and st.targets[0].id != nm:
                        alias.add(st.targets[0].id)
                b_ = BufName(nm, alias) if alias else nm
                self._scan(m, b_)
                self.locals.append((m, b_))

    def _scan(self, m: FunctionInfo, b: str) -> dict:
        cfg = get_cfg(m)
        inf = {}
        for st in cfg.nodes:
            if isinstance(st, ast.stmt):
                inf[st] = StmtBuf(st, b, m.fq)
        self.info[(m.fq, b)] = inf
        return inf

    def events(self, m: FunctionInfo, b: str, n) -> set:
        if not isinstance(n, ast.stmt):
            return set()
        ev = set(self.info[(m.fq, b)][n].events())
        if b == self.B:
            for root in _own_exprs(n):
                for c in ast.walk(root):
                    if isinstance(c, ast.Call) and isinstance(c.func, ast.Attribute) and _is_name(c.func.value, "self") and c.func.attr in self.summ:
                        ev |= self.summ[c.func.attr]
        return ev

    def separators(self) -> dict[str, set]:
        out: dict[str, set] = {}
        for (fq, b), inf in self.info.items():
            for i in inf.values():
                for s in i.finds:
                    out.setdefault(fq, set()).add(s)
        return out


def _reader(corpus: Corpus) -> ReaderModel:
    return corpus.cache("c18-reader", lambda: ReaderModel(corpus))


def _judge_find_offsets(rep: Report, M: "ReaderModel", m: FunctionInfo, b: str) -> None:
    """``B.find(sep, START)``: START caches how much of the buffer was searched already. It is only valid while
    the front of the buffer is unchanged: once a prefix was cut off (or the buffer reset) it must be 0 again
    before the next search, and it may only be advanced to len(B) when the search over the whole buffer failed."""
    rid = "C18.R4"
    cfg = get_cfg(m)
    inf = M.info[(m.fq, b)]
    persistent_b = b == M.B
    finds = []  # (stmt, call, start expr)
    for st in inf:
        for root in _own_exprs(st):
            for c in ast.walk(root):
                if isinstance(c, ast.Call) and isinstance(c.func, ast.Attribute) and c.func.attr in ("find", "index") and _is_b(c.func.value, b) and len(c.args) >= 2:
                    finds.append((st, c, c.args[1]))
    for st, c, start in finds:
        if _const(start) == 0:
            continue
        V = unparse(start)
        if not (isinstance(start, ast.Name) or (isinstance(start, ast.Attribute) and _is_name(start.value, "self"))):
            raise Unsupported(f"{m.fq}: search start `{V}` of {b}.find not understood")
        persistent_v = V.startswith("self.")
        finders = {mm.name for mm in M.methods if any(isinstance(x, ast.Call) and isinstance(x.func, ast.Attribute) and x.func.attr in ("find", "index") and len(x.args) >= 2 and unparse(x.args[1]) == V for x in mm.local_nodes())}

        def v_store(n):
            if isinstance(n, ast.Assign) and len(n.targets) == 1 and unparse(n.targets[0]) == V:
                return n.value
            if isinstance(n, (ast.AugAssign, ast.AnnAssign)) and unparse(n.target) == V:
                return n
            return None

        def searches_again(n) -> bool:
            for root in _own_exprs(n):
                for x in ast.walk(root):
                    if isinstance(x, ast.Call) and isinstance(x.func, ast.Attribute):
                        if x.func.attr in ("find", "index") and len(x.args) >= 2 and unparse(x.args[1]) == V:
                            return True
                        if _is_name(x.func.value, "self") and x.func.attr in finders:
                            return True
            return False

        # (a) after the front of the buffer changed, the offset is 0 again before the next search / return
        k = f"{m.fq}|{b}|search offset {V}|zero after the buffer is cut"
        bad = None
        seen = set()
        work = [(s_, None, False) for s_ in cfg.succ.get(st, [])]
        while work and bad is None:
            n, z, cut = work.pop()
            if (n, z, cut) in seen:
                continue
            seen.add((n, z, cut))
            if n == RAISE:
                continue
            if n == EXIT:
                if cut and z is not True and persistent_v and persistent_b:
                    bad = "the method returns"
                continue
            if isinstance(n, ast.stmt):
                if searches_again(n) and cut and z is not True:
                    bad = f"`{short(n, 50)}` searches again"
                    continue
                if n is st:
                    continue
                s_ = inf[n].store
                if s_ is not None and s_ != "append":
                    cut = True
                vs = v_store(n)
                if vs is not None:
                    z = _const(vs) == 0 if isinstance(vs, ast.expr) else False
            work.extend((s2, z, cut) for s2 in cfg.succ.get(n, []))
        if bad is None:
            rep.ok(rid, k, m.module.site(c))
        else:
            rep.violation(rid, k, m.module.site(c), f"`{short(c, 50)}` starts at {V}, but after a prefix was cut off {b} (or {b} was emptied) {bad} with {V} unchanged: separators within the first {V} bytes of the remaining buffer are skipped, so a line can swallow the following lines - whether that happens depends on how the stream was split into reads")
        # (b) the offset only advances over bytes that were searched
        for n in inf:
            vs = v_store(n)
            if vs is None or (isinstance(vs, ast.expr) and _const(vs) == 0):
                continue
            k2 = f"{m.fq}|{b}|search offset {V}|{short(n, 50)}"
            is_len = isinstance(vs, ast.Call) and dotted(vs.func) == "len" and len(vs.args) == 1 and _is_b(vs.args[0], b)
            if not is_len:
                raise Unsupported(f"{m.fq}: value stored to {V} not understood: {short(n, 50)}")
            pos = None
            p_ = parent(c)
            if isinstance(p_, ast.Assign) and len(p_.targets) == 1 and isinstance(p_.targets[0], ast.Name):
                pos = p_.targets[0].id
            elif isinstance(p_, ast.NamedExpr) and isinstance(p_.target, ast.Name):
                pos = p_.target.id  # while (pos := buf.find(sep, start)) == -1 ...
            failed = pos is not None and any(a[0] == "eq" and a[3] and _is_name(_strip_walrus(a[1]), pos) and unparse(a[2]) == "-1" for a in _atoms(cfg, n))
            grown = any("append" in M.events(m, b, x) for x in _between(cfg, st, n))
            if failed and not grown and cfg.dominates(st, n):
                rep.ok(rid, k2, m.module.site(n), "only after the search over the whole buffer failed, before anything is appended")
            else:
                rep.violation(rid, k2, m.module.site(n), f"{V} is advanced to len({b}) on a path where {'bytes were appended after the search' if grown else 'the search did not fail'}: bytes that were never searched are skipped by the next {b}.find")
    # offsets initialised elsewhere (e.g. __init__) need no judgement


def _judge_buffer(rep: Report, M: ReaderModel, m: FunctionInfo, b: str) -> None:
    rid = "C18.R4"
    cfg = get_cfg(m)
    inf = M.info[(m.fq, b)]
    persistent = b == M.B
    mod = m.module
    ev = lambda n: M.events(m, b, n)
    appends = [st for st in inf if "append" in ev(st)]
    for st, i in sorted(inf.items(), key=lambda kv: kv[0].lineno):
        if i.store is None:
            continue
        site = mod.site(st)
        k = f"{m.fq}|{b}|store|{short(st, 60)}"
        if i.store == "append":
            rep.ok(rid, k, site, "append")
        elif i.store == "other":
            rep.violation(rid, k, site, f"`{short(st, 60)}` replaces {b}: bytes received earlier and not yet consumed are dropped, so the result depends on how the stream is split into reads")
        elif i.store == "reset":
            init = m.name == "__init__" if persistent else not any(st in cfg.reachable_from(a) for a in appends)
            if init:
                rep.ok(rid, k, site, "initialisation")
                continue
            us = [st] if getattr(i, "moved_whole", False) else [u for u, j in inf.items() if j.whole and u is not st and cfg.dominates(u, st) and not any(ev(x) for x in _between(cfg, u, st))]
            if us:
                rep.ok(rid, k, site, f"whole buffer consumed by `{short(us[0], 50)}`")
            else:
                rep.violation(rid, k, site, f"{b} is emptied on a path that has not consumed its whole content: unread bytes are dropped")
        else:
            lower = i.store[1]
            ps = [u for u, j in inf.items() if j.prefix and u is not st and cfg.dominates(u, st) and not any(ev(x) for x in _between(cfg, u, st))]
            if not ps:
                rep.violation(rid, k, site, f"`{short(st, 60)}` drops a prefix of {b} that was not consumed before")
                continue
            p = ps[0]
            ups = inf[p].prefix
            if len(ups) != 1 or not isinstance(ups[0], ast.Name):
                raise Unsupported(f"{m.fq}: prefix bound of {b} not understood")
            pos = ups[0].id
            seps = set()
            defs = []
            foreign = None
            for d, v in _name_defs(list(inf), pos):
                if v is None:
                    raise Unsupported(f"{m.fq}: `{pos}` is modified in an unknown way")
                if isinstance(v, ast.Call) and isinstance(v.func, ast.Attribute) and v.func.attr in ("find", "rfind", "index") and not _is_b(v.func.value, b) and v.args and _cbytes(v.args[0]) is not None:
                    foreign = (d, v)  # a position in some other byte string
                    continue
                if not (isinstance(v, ast.Call) and isinstance(v.func, ast.Attribute) and v.func.attr in ("find", "rfind") and _is_b(v.func.value, b) and len(v.args) in (1, 2) and _cbytes(v.args[0]) is not None):
                    raise Unsupported(f"{m.fq}: `{pos}` is not only assigned from {b}.find(<bytes>)")
                seps.add(_cbytes(v.args[0]))
                defs.append(d)
            if foreign is not None:
                rep.violation(rid, k, site, f"`{pos}` is (also) computed as `{short(foreign[1], 50)}`, a position in `{short(foreign[1].func.value, 30)}`, but `{short(st, 50)}` uses it as a position in {b}: when {b} already holds bytes carried over from an earlier read the line is cut at the wrong place - the result depends on how the stream is split into reads")
                continue
            if len(seps) != 1:
                raise Unsupported(f"{m.fq}: `{pos}` has no single separator")
            sep = seps.pop()
            good_lower = isinstance(lower, ast.BinOp) and isinstance(lower.op, ast.Add) and _is_name(lower.left, pos) and _const(lower.right) == len(sep)
            stale = []
            for d in defs:  # reaching-definition segments d -> p (other definitions of pos kill d)
                stop = set(defs) | {p}
                seg = _reach(cfg, cfg.succ.get(d, []), stop) & _reach(cfg, cfg.pred.get(p, []), stop, False)
                if any(ev(x) & {"append", "store"} for x in seg):
                    stale.append(d)
            found = False
            for a in _atoms(cfg, p):
                if a[0] == "eq" and not a[3] and _is_name(a[1], pos) and unparse(a[2]) == "-1":
                    found = True
                if a[0] == "truth" and a[3] and unparse(a[4]) in (f"{pos} >= 0", f"{pos} > -1"):
                    found = True
            if not good_lower:
                rep.violation(rid, k, site, f"after consuming {b}[:{pos}] the store keeps {b}[{unparse(lower)}:], not {b}[{pos} + {len(sep)}:]: bytes other than the separator are dropped or re-read")
            elif stale:
                rep.violation(rid, k, site, f"`{pos}` is computed before {b} is modified again: the consumed prefix and the dropped prefix can differ")
            elif not found:
                rep.violation(rid, k, site, f"the prefix {b}[:{pos}] is consumed without a dominating `{pos} != -1` test")
            else:
                rep.ok(rid, k, site, f"prefix up to the separator consumed by `{short(p, 50)}`")
    _judge_find_offsets(rep, M, m, b)
    # consumed bytes are discarded before the next append/use (no byte is processed twice)
    for u, i in sorted(inf.items(), key=lambda kv: kv[0].lineno):
        for what, wanted in (("whole", "reset"), ("prefix", "drop")):
            if not getattr(i, what):
                continue
            k = f"{m.fq}|{b}|consumed {what} is discarded|{short(u, 60)}"
            if what == "whole" and getattr(i, "moved_whole", False) and i.store == "reset":
                rep.ok(rid, k, mod.site(u), "moved out and emptied in one parallel assignment")
                continue
            bad = None
            seen = set()
            work = list(cfg.succ.get(u, []))
            while work and bad is None:
                n = work.pop()
                if n in seen:
                    continue
                seen.add(n)
                if n == RAISE:
                    continue
                if n == EXIT:
                    if persistent:
                        bad = "the method returns"
                    continue
                if isinstance(n, ast.stmt):
                    s = inf[n].store
                    if (wanted == "reset" and s == "reset") or (wanted == "drop" and isinstance(s, tuple)):
                        continue
                    if n is u or ev(n) & {"append", "use"}:
                        bad = f"`{short(n, 50)}` runs"
                        continue
                work.extend(cfg.succ.get(n, []))
            if bad is None:
                rep.ok(rid, k, mod.site(u))
            else:
                rep.violation(rid, k, mod.site(u), f"`{short(u, 60)}` consumes {b} but {bad} before the consumed bytes are removed from it: with more than one read() the same bytes are processed twice")
    # a local line buffer must be empty or consumed when the generator/function ends
    if not persistent:
        for a in appends:
            k = f"{m.fq}|{b}|unconsumed tail at exit"

            def avoid(n):
                if isinstance(n, ast.stmt):
                    return bool(inf[n].whole) or inf[n].store == "reset"
                return _empty_edge(n, b)

            if cfg.paths_avoiding(a, EXIT, avoid):
                rep.violation(rid, k, mod.site(a), f"{m.qualname}: bytes appended to `{b}` after the last separator are still in it when the function ends and are never yielded: an unterminated last line is dropped (Sphinx keeps it)")
            else:
                rep.ok(rid, k, mod.site(a), "tail consumed or known empty on every path to the exit")


# -- decode() provenance: bytes are decoded only at entry or stream boundaries ------------------

CHUNK_CALLS = {"read", "decompress", "flush"}  # calls whose result is an arbitrary piece of the byte stream


def _chunk_generators(M: "ReaderModel") -> set[str]:
    """Generator methods of the reader that yield arbitrary pieces of the (decompressed) byte stream."""
    out = set()
    for m in M.methods:
        for n in m.local_nodes():
            if isinstance(n, (ast.Yield, ast.YieldFrom)) and n.value is not None:
                if any(isinstance(c, ast.Call) and isinstance(c.func, ast.Attribute) and c.func.attr in CHUNK_CALLS for c in ast.walk(n.value)):
                    out.add(m.name)
    return out


def _bytes_provenance(e, fi: FunctionInfo, M: "ReaderModel", gens: set[str], at: ast.stmt, depth: int = 0):
    """('ok'|'chunk', reason) for the bytes expression ``e`` decoded in statement ``at``."""
    if depth > 5:
        raise Unsupported(f"{fi.fq}: provenance of decoded bytes too deep")
    cfg = get_cfg(fi)
    local_bufs = {x for m, nm in M.locals if m.fq == fi.fq for x in getattr(nm, "names", (nm,))}
    owner = {x: nm for m, nm in M.locals if m.fq == fi.fq for x in getattr(nm, "names", (nm,))}
    in_reader = any(m.fq == fi.fq for m in M.methods)
    # prefix up to a separator
    if isinstance(e, ast.Subscript) and isinstance(e.slice, ast.Slice) and e.slice.lower is None and e.slice.step is None and isinstance(e.slice.upper, ast.Name):
        b = unparse(e.value)
        if (in_reader and b == M.B) or b in local_bufs:
            pos = e.slice.upper.id
            seps = []
            for d, v in _name_defs([x for x in cfg.nodes if isinstance(x, ast.stmt)], pos):
                if isinstance(v, ast.Call) and isinstance(v.func, ast.Attribute) and v.func.attr in ("find", "rfind") and unparse(v.func.value) == b and len(v.args) in (1, 2) and _cbytes(v.args[0]) is not None:
                    seps.append(_cbytes(v.args[0]))
                elif isinstance(v, ast.Call) and isinstance(v.func, ast.Attribute) and v.func.attr in ("find", "rfind", "index") and v.args and _cbytes(v.args[0]) is not None:
                    return "chunk", f"`{pos}` is a position in `{short(v.func.value, 30)}`, not in {b}"
                else:
                    raise Unsupported(f"{fi.fq}: `{pos}` is not only assigned from {b}.find(<bytes>)")
            if seps and all(s and max(s) < 0x80 for s in seps):
                return "ok", f"prefix of {b} up to an ASCII separator"
            return "chunk", f"prefix of {b} up to a position that is not an ASCII separator"
        raise Unsupported(f"{fi.fq}: slice `{short(e, 40)}` of unknown bytes")
    # the whole persistent buffer: only at end of stream
    if in_reader and unparse(e) == M.B:
        if any(pol and unparse(t) == M.E for t, pol in cfg.guards(at)) or _guards_imply(cfg.guards(at), M.E):
            return "ok", f"whole {M.B} at end of stream ({M.E})"
        return "chunk", f"{M.B} holds whatever the reads delivered so far and {M.E} is not known to be set"
    if isinstance(e, ast.Name):
        if e.id in local_bufs:
            inf = M.info[(fi.fq, owner[e.id])]
            later = [a for a, i in inf.items() if i.store == "append" and a in cfg.reachable_from(at)]
            if not later:
                return "ok", f"`{e.id}` after the last chunk was appended"
            return "chunk", f"`{e.id}` is decoded while chunks are still being appended to it"
        binds = []
        for n in fi.local_nodes():
            if isinstance(n, (ast.For, ast.comprehension)) and any(_is_name(x, e.id) for x in ast.walk(n.target)):
                binds.append(("iter", n.iter, None))
            elif isinstance(n, ast.Assign) and any(_is_name(t, e.id) for t in n.targets):
                binds.append(("is", n.value, n))
            elif isinstance(n, ast.Assign) and len(n.targets) == 1 and isinstance(n.targets[0], (ast.Tuple, ast.List)) and isinstance(n.value, (ast.Tuple, ast.List)) and len(n.value.elts) == len(n.targets[0].elts) and any(_is_name(t, e.id) for t in n.targets[0].elts):
                binds += [("is", v_, n) for t_, v_ in zip(n.targets[0].elts, n.value.elts) if _is_name(t_, e.id)]
            elif isinstance(n, (ast.AugAssign, ast.AnnAssign, ast.NamedExpr)) and _is_name(n.target, e.id):
                raise Unsupported(f"{fi.fq}: `{e.id}` is bound in a way the decode rule does not follow")
        if e.id in fi.params or not binds:
            raise Unsupported(f"{fi.fq}: origin of the decoded bytes `{e.id}` unknown")
        res = []
        for how, src, bst in binds:
            if how == "is":
                # what the name holds is what the buffer held WHEN it was bound: "at end of stream" must hold there
                here = cfg.stmt_of(bst) if (bst is not None and in_reader and unparse(src) == M.B) else at
                res.append(_bytes_provenance(src, fi, M, gens, here, depth + 1))
            else:
                it = src
                while isinstance(it, ast.Call) and isinstance(it.func, ast.Name) and it.func.id in ("iter", "list", "tuple", "reversed") and len(it.args) == 1:
                    it = it.args[0]
                if isinstance(it, ast.Call) and isinstance(it.func, ast.Attribute) and it.func.attr in gens:
                    res.append(("chunk", f"`{e.id}` is one item of {it.func.attr}(): an arbitrary piece of the decompressed stream"))
                elif isinstance(it, ast.Call) and isinstance(it.func, ast.Attribute) and it.func.attr in ("splitlines", "split") and (it.func.attr == "splitlines" or (it.args and _cbytes(it.args[0]) and max(_cbytes(it.args[0])) < 0x80)):
                    v_, why_ = _bytes_provenance(it.func.value, fi, M, gens, at, depth + 1)
                    res.append((v_, f"a line of {why_}" if v_ == "ok" else why_))  # cut at ASCII bytes: never inside a character
                else:
                    raise Unsupported(f"{fi.fq}: `{e.id}` iterates over `{short(src, 40)}`")
        bad = [r for r in res if r[0] == "chunk"]
        return bad[0] if bad else res[0]
    if isinstance(e, ast.Call):
        f = e.func
        if isinstance(f, ast.Attribute) and f.attr == "join" and _cbytes(f.value) is not None and len(e.args) == 1:
            it = e.args[0]
            if isinstance(it, (ast.GeneratorExp, ast.ListComp)) and len(it.generators) == 1 and not it.generators[0].ifs and _is_name(it.elt, getattr(it.generators[0].target, "id", "")):
                it = it.generators[0].iter
            for _ in range(3):
                while isinstance(it, ast.Call) and isinstance(it.func, ast.Name) and it.func.id in ("list", "tuple", "iter") and len(it.args) == 1:
                    it = it.args[0]
                if isinstance(it, ast.Name):  # chunks = list(gen()); b"".join(chunks)
                    defs = [n for n in fi.local_nodes() if isinstance(n, ast.Assign) and any(_is_name(t, it.id) for t in n.targets)]
                    others = [n for n in fi.local_nodes() if isinstance(n, ast.Call) and isinstance(n.func, ast.Attribute) and _is_name(n.func.value, it.id) and n.func.attr in ("append", "extend", "insert", "pop", "remove", "clear")]
                    if len(defs) == 1 and not others:
                        it = defs[0].value
                        continue
                break
            if isinstance(it, ast.Call) and isinstance(it.func, ast.Attribute) and it.func.attr in gens:
                return "ok", f"all items of {it.func.attr}() joined: the complete decompressed body"
            raise Unsupported(f"{fi.fq}: join over `{short(it, 40)}`")
        if isinstance(f, ast.Attribute) and f.attr in CHUNK_CALLS:
            if f.attr == "read" and not e.args and not e.keywords:
                return "ok", "read() without a size: the rest of the stream"
            if fi.module.resolve(dotted(f) or "") == "zlib.decompress" and e.args:
                return _bytes_provenance(e.args[0], fi, M, gens, at, depth + 1)
            return "chunk", f"`{short(e, 40)}` returns an arbitrary piece of the byte stream"
        if isinstance(f, ast.Attribute) and f.attr in gens or (isinstance(f, ast.Name) and f.id == "next"):
            return "chunk", f"`{short(e, 40)}` is one chunk"
    raise Unsupported(f"{fi.fq}: origin of the decoded bytes `{short(e, 50)}` not understood")


def _judge_decodes(rep: Report, M: "ReaderModel", funcs: list[FunctionInfo]) -> int:
    rid = "C18.R4"
    gens = _chunk_generators(M)
    n = 0
    for fi in funcs:
        cfg = get_cfg(fi)
        for c in fi.local_nodes():
            if not isinstance(c, ast.Call):
                continue
            recv = None
            if isinstance(c.func, ast.Attribute) and c.func.attr == "decode":
                recv = c.func.value
                if isinstance(recv, ast.Name):
                    # an incremental decoder keeps the undecoded tail itself: decoder.decode(chunk) is chunk-safe
                    defs = [d for d in fi.local_nodes() if isinstance(d, ast.Assign) and any(_is_name(t, recv.id) for t in d.targets)]
                    if defs and all("incrementaldecoder" in unparse(d.value).lower() for d in defs):
                        n += 1
                        rep.ok(rid, f"{fi.fq}|decode|{short(c, 50)}", fi.module.site(c), "incremental decoder")
                        continue
            elif isinstance(c.func, ast.Name) and c.func.id == "str" and len(c.args) + len(c.keywords) >= 2 and c.args:
                recv = c.args[0]
            elif fi.module.resolve(dotted(c.func) or "") == "codecs.decode" and c.args:
                recv = c.args[0]
            if recv is None:
                continue
            n += 1
            at = cfg.stmt_of(c)
            verdict, why = _bytes_provenance(recv, fi, M, gens, at)
            k = f"{fi.fq}|decode|{short(recv, 50)}"
            if verdict == "ok":
                rep.ok(rid, k, fi.module.site(c), why)
            else:
                rep.violation(rid, k, fi.module.site(c), f"`{short(c, 50)}` decodes bytes that can end inside a multi-byte character: {why}. With a read()/decompress boundary inside a UTF-8 sequence the load raises UnicodeDecodeError although the same bytes load in one read")
    return n


# -- end of input is decided by the eof flag, never by the value of a line --------------------------


def _judge_line_loops(rep: Report, M: "ReaderModel", funcs: list[FunctionInfo]) -> int:
    """``readline()`` returns '' for a blank line as well as at end of stream (the consumed prefix may be
    empty), so a loop over lines must end on the eof flag; ending on an empty line loses every later entry."""
    rid = "C18.R4"
    n = 0
    eof_attr = M.E.split(".", 1)[1]

    def is_readline(e) -> bool:
        return isinstance(e, ast.Call) and isinstance(e.func, ast.Attribute) and e.func.attr == "readline" and not e.args

    def mentions_eof(t) -> bool:
        return any(isinstance(x, ast.Attribute) and x.attr == eof_attr for x in ast.walk(t))

    for fi in funcs:
        cfg = get_cfg(fi)
        for c in fi.local_nodes():
            # iter(<callable that returns the next line>, sentinel): a line equal to the sentinel ends the iteration
            def line_callable(f_) -> bool:
                if isinstance(f_, ast.Attribute) and f_.attr in ("readline", "__next__"):
                    return True
                if isinstance(f_, ast.Lambda):
                    return any(isinstance(x, ast.Call) and ((isinstance(x.func, ast.Attribute) and x.func.attr == "readline") or (isinstance(x.func, ast.Name) and x.func.id == "next")) for x in ast.walk(f_.body))
                return False

            if isinstance(c, ast.Call) and isinstance(c.func, ast.Name) and c.func.id == "iter" and len(c.args) == 2 and line_callable(c.args[0]) and _const(c.args[1]) in ("", b""):
                n += 1
                rep.violation(rid, f"{fi.fq}|line loop ends on an empty line", fi.module.site(c), f"`{short(c, 50)}` stops at the first line equal to {short(c.args[1], 10)}: a blank line in the body ends the iteration and every later entry is silently lost (end of stream is signalled by {M.E}, not by the line's value)")
        loops = [l for l in fi.local_nodes() if isinstance(l, (ast.While, ast.For))]
        for loop in loops:
            inner = {x for st in loop.body for x in ast.walk(st)}
            reads = [x for x in inner if is_readline(x)] + ([x for x in ast.walk(loop.test) if is_readline(x)] if isinstance(loop, ast.While) else [])
            if not reads:
                continue
            n += 1
            k = f"{fi.fq}|line loop|{short(loop.test if isinstance(loop, ast.While) else loop.iter, 50)}"
            lvars = set()
            for r in reads:
                p = parent(r)
                if isinstance(p, ast.Assign) and len(p.targets) == 1 and isinstance(p.targets[0], ast.Name):
                    lvars.add(p.targets[0].id)
                elif isinstance(p, ast.NamedExpr) and isinstance(p.target, ast.Name):
                    lvars.add(p.target.id)

            def empty_fact(t, pol) -> bool:
                """the fact says: a line read in this loop is empty"""
                for tt, pp in facts(t, pol):
                    if ((isinstance(tt, ast.Name) and tt.id in lvars) or (isinstance(tt, ast.NamedExpr) and is_readline(tt.value)) or is_readline(tt)) and not pp:
                        return True
                    ec = _eq_const(tt)
                    if ec is not None and ec[1] == "" and pp and ((isinstance(ec[0], ast.Name) and ec[0].id in lvars) or is_readline(ec[0])):
                        return True
                return False

            bad = None
            if isinstance(loop, ast.While) and empty_fact(loop.test, False) and not mentions_eof(loop.test):
                bad = loop.test
            for x in inner:
                if isinstance(x, (ast.Break, ast.Return)) and cfg.loops.get(x) is not None:
                    own = [(t, pol) for t, pol in cfg.guards(x) if any(t is y for st in loop.body for y in ast.walk(st))]
                    if any(empty_fact(t, pol) for t, pol in own) and not any(mentions_eof(t) for t, _ in own):
                        bad = x
            if bad is not None:
                rep.violation(rid, f"{fi.fq}|line loop ends on an empty line", fi.module.site(bad), f"the loop over readline() is left when a line is empty (`{short(bad, 50)}`), but readline() also returns '' for a blank line: a blank line in the body ends the iteration and every later entry is silently lost (end of stream is signalled by {M.E})")
            else:
                rep.ok(rid, k, fi.module.site(loop), "an empty line is only skipped; the loop ends on the eof flag / the iterator")
    return n


def _judge_content_tests(rep: Report, M: "ReaderModel", funcs: list[FunctionInfo]) -> int:
    """A decision taken on what the read buffer happens to contain (startswith / slice or index comparison /
    length comparison) is only independent of the read schedule at end of stream, or after a loop that read until
    enough bytes or eof. The reader's own protocol (``find`` a separator, else read more) and emptiness tests
    are not content decisions."""
    rid = "C18.R4"
    battr, eattr = M.B.split(".", 1)[1], M.E.split(".", 1)[1]
    n = 0

    def is_buf(e) -> bool:
        return isinstance(e, ast.Attribute) and e.attr == battr and isinstance(e.value, ast.Name)

    def mentions_eof(t) -> bool:
        return any(isinstance(x, ast.Attribute) and x.attr == eattr for x in ast.walk(t))

    for fi in funcs:
        cfg = get_cfg(fi)
        for st in [x for x in cfg.nodes if isinstance(x, (ast.If, ast.While, ast.Assert))]:
            test = st.test
            probes = []
            for x in ast.walk(test):
                if isinstance(x, ast.Call) and isinstance(x.func, ast.Attribute) and is_buf(x.func.value) and x.func.attr in ("startswith", "endswith", "count", "index", "rfind", "rindex"):
                    probes.append(x)
                elif isinstance(x, ast.Compare):
                    sides = [x.left] + list(x.comparators)
                    for s_ in sides:
                        if isinstance(s_, ast.Subscript) and is_buf(s_.value):
                            probes.append(x)  # buffer[:n] == ..., buffer[0] == ...
                        elif isinstance(s_, ast.Call) and dotted(s_.func) == "len" and s_.args and is_buf(s_.args[0]) and not any(_const(o) == 0 for o in sides if o is not s_):
                            probes.append(x)  # len(buffer) < n
                        elif is_buf(s_) and not any(_empty_bytes(o) for o in sides if o is not s_) and not isinstance(x.ops[0], (ast.Is, ast.IsNot)):
                            probes.append(x)  # buffer == b"..."
            if not probes:
                continue
            if isinstance(st, ast.While) and mentions_eof(test):
                continue  # "read until enough bytes or eof" loop: the test itself is the protocol
            n += 1
            p = probes[0]
            k = f"{fi.fq}|decision on the buffer content|{short(p, 60)}"
            dom = cfg.dom().get(st, set())
            settled = any(pol and mentions_eof(t) and not isinstance(t, ast.BoolOp) for t, pol in cfg.guards(st))
            for d in dom:
                if isinstance(d, tuple) and d[0] == "F" and isinstance(d[1], ast.While) and mentions_eof(d[1].test) and any(is_buf(y) for y in ast.walk(d[1].test)):
                    settled = True  # left a loop that read until the buffer was long enough or the stream ended
            if settled:
                rep.ok(rid, k, fi.module.site(p), "at end of stream / after reading until enough bytes are buffered")
            else:
                rep.violation(rid, k, fi.module.site(p), f"`{short(p, 60)}` decides on the bytes that happen to be in the read buffer, which holds whatever the reads delivered so far (a read may return a single byte): the same stream is accepted or rejected depending on how it is split into reads. Decide on a complete line (readline()) or read until enough bytes or eof first")
    return n


def _judge_decompress(rep: Report, M: "ReaderModel") -> int:
    """``d.decompress(data, max_length)`` leaves unprocessed input in ``d.unconsumed_tail``; it must be fed back."""
    rid = "C18.R4"
    n = 0
    for m in M.methods:
        for c in m.local_nodes():
            if not (isinstance(c, ast.Call) and isinstance(c.func, ast.Attribute) and c.func.attr == "decompress" and isinstance(c.func.value, ast.Name)):
                continue
            n += 1
            d = c.func.value.id
            ml = arg_or_kw(c, 1, "max_length")
            k = f"{m.fq}|{short(c.func, 40)}|input not processed is kept"
            if ml is None or _const(ml) == 0:
                rep.ok(rid, k, m.module.site(c), "no max_length: the whole input is processed")
                continue
            tails = [x for x in m.local_nodes() if isinstance(x, ast.Attribute) and x.attr == "unconsumed_tail" and _is_name(x.value, d)]
            if tails:
                rep.ok(rid, k, m.module.site(c), f"{d}.unconsumed_tail is read again")
            else:
                rep.violation(rid, k, m.module.site(c), f"`{short(c, 60)}` limits the output to {short(ml, 20)} bytes; the input that was not processed stays in {d}.unconsumed_tail, which is never read: when a read expands to more than that, the rest of its data is thrown away with the next read (entries lost or a zlib error, depending on how the stream is split into reads)")
    return n


def _judge_stream_end(rep: Report, M: "ReaderModel") -> int:
    """A ``zlib.decompressobj()`` does not complain when its input stops early (``flush()`` returns what it has):
    before the method ends normally the object's ``eof`` must be tested and a truncated stream rejected."""
    rid = "C18.R4"
    n = 0
    for m in M.methods:
        cfg = get_cfg(m)
        objs = [st for st in cfg.nodes if isinstance(st, ast.Assign) and len(st.targets) == 1 and isinstance(st.targets[0], ast.Name) and isinstance(st.value, ast.Call) and m.module.resolve(dotted(st.value.func) or "") == "zlib.decompressobj"]
        for st in objs:
            d = st.targets[0].id
            n += 1
            k = f"{m.fq}|{d}|truncated stream rejected"

            def checks_eof(x) -> bool:
                if not isinstance(x, ast.If):
                    return False
                reads = any(isinstance(y, ast.Attribute) and y.attr == "eof" and _is_name(y.value, d) for y in ast.walk(x.test))
                # the branch taken when eof is false raises
                neg = any(isinstance(t, ast.Attribute) and t.attr == "eof" and _is_name(t.value, d) and not pol for t, pol in facts(x.test, True))
                pos_ = any(isinstance(t, ast.Attribute) and t.attr == "eof" and _is_name(t.value, d) and pol for t, pol in facts(x.test, True))
                body_raises = any(isinstance(y, ast.Raise) for b_ in x.body for y in ast.walk(b_))
                else_raises = any(isinstance(y, ast.Raise) for b_ in x.orelse for y in ast.walk(b_))
                return reads and ((neg and body_raises) or (pos_ and else_raises))

            asserts = lambda x: isinstance(x, ast.Assert) and any(isinstance(y, ast.Attribute) and y.attr == "eof" and _is_name(y.value, d) for y in ast.walk(x.test))
            if not cfg.paths_avoiding(st, EXIT, lambda x: checks_eof(x)):
                rep.ok(rid, k, m.module.site(st), f"every normal exit passes a test of {d}.eof that raises on an unfinished stream")
            elif not cfg.paths_avoiding(st, EXIT, lambda x: checks_eof(x) or asserts(x)):
                rep.ok(rid, k, m.module.site(st), f"{d}.eof asserted before the normal exit")
            else:
                rep.violation(rid, k, m.module.site(st), f"`{short(st, 50)}`: the method can end normally without testing {d}.eof; a zlib body that is cut short (interrupted download, only the header lines) then loads without error as a partial inventory, the entry at the cut keeping a shortened display name - Sphinx's zlib.decompress() raises")
    return n


def _judge_read_recursion(rep: Report, M: "ReaderModel") -> int:
    """A reader method that calls itself after reading more data recurses once per read: the depth is the number
    of reads a line needs, so a long line from a stream that returns few bytes per read() raises RecursionError
    while the same bytes load from a BytesIO."""
    rid = "C18.R4"
    n = 0
    readers = {mm.name for mm in M.methods if "append" in M.summ.get(mm.name, set())}
    for m in M.methods:
        if m.name not in readers:
            continue
        n += 1
        k = f"{m.fq}|no recursion per read"
        rec = [c for c in m.local_nodes() if isinstance(c, ast.Call) and isinstance(c.func, ast.Attribute) and _is_name(c.func.value, "self") and c.func.attr == m.name]
        if rec:
            rep.violation(rid, k, m.module.site(rec[0]), f"{m.qualname} calls itself (`{short(rec[0], 40)}`) after reading from the stream: one stack frame per read() that does not complete the line, so a 2500-character line read 1-2 bytes at a time raises RecursionError although the same bytes load in one read - use a loop")
        else:
            rep.ok(rid, k, m.site(), "reads in a loop")
    return n


@rule("C18.R4")
def r4_buffer_conservation(corpus: Corpus, rep: Report, tier: str):
    corpus = _view(corpus)
    rep.rule("C18.R4", "reader buffers: stores are append / consumed-prefix drop / consumed reset; consumed bytes discarded once; no tail left at exit; decode() only at entry/stream boundaries; line loops end on the eof flag; bounded decompress keeps its tail; cached search offsets reset when the buffer is cut; content decisions only at eof / after reading enough; decompressor eof tested; no recursion per read; eof only on b''; every chunk appended or handed on")
    M = _reader(corpus)
    rid = "C18.R4"
    for m in M.methods:
        rep.saw_function(m.fq)
        _judge_buffer(rep, M, m, M.B)
    for m, nm in M.locals:
        _judge_buffer(rep, M, m, nm)
    # decode() only at entry / stream boundaries
    A = _anchors(corpus)
    if _judge_decodes(rep, M, M.methods + [A.load, A.v1, A.v2]) < 1:
        raise Unsupported(f"{M.ci.fq}: no decode() of the byte stream found")
    # line loops end on the eof flag; bounded decompression keeps its tail
    _judge_line_loops(rep, M, M.methods + [A.load, A.v1, A.v2])  # none when no loop calls readline()
    _judge_decompress(rep, M)
    _judge_stream_end(rep, M)
    _judge_read_recursion(rep, M)
    _judge_content_tests(rep, M, M.methods + [A.load, A.v1, A.v2])
    # reads and the eof flag
    n_reads = 0
    for m in M.methods:
        cfg = get_cfg(m)
        mod = m.module
        chunk = None
        for st in cfg.nodes:
            if not isinstance(st, ast.stmt):
                continue
            for root in _own_exprs(st):
                for c in ast.walk(root):
                    if isinstance(c, ast.Call) and isinstance(c.func, ast.Attribute) and c.func.attr == "read" and isinstance(c.func.value, ast.Attribute) and _is_name(c.func.value.value, "self"):
                        n_reads += 1
                        if not (isinstance(st, ast.Assign) and st.value is c and len(st.targets) == 1 and isinstance(st.targets[0], ast.Name)):
                            raise Unsupported(f"{m.fq}: result of the stream read is not bound to a local")
                        chunk = st.targets[0].id
                        k = f"{m.fq}|every chunk read is appended to {M.B}"
                        inf = M.info[(m.fq, M.B)]

                        def consumed(n, chunk=chunk) -> bool:
                            """the chunk is handed on whole (decompress(chunk), yield chunk, ...)"""
                            try:
                                return bool(StmtBuf(n, chunk, m.fq).whole)
                            except Unsupported:
                                return False

                        def avoid(n, chunk=chunk, inf=inf):
                            if isinstance(n, ast.stmt):
                                if inf[n].store == "append" and any(_is_name(x, chunk) for x in ast.walk(n.value)):
                                    return True
                                return n is not st and consumed(n)
                            return _empty_edge(n, chunk)

                        if cfg.paths_avoiding(st, EXIT, avoid):
                            rep.violation(rid, k, mod.site(st), f"a chunk returned by `{short(c, 40)}` can reach the end of {m.qualname} without being appended to {M.B} or handed on")
                        else:
                            rep.ok(rid, k, mod.site(st))
        for st in cfg.nodes:
            if isinstance(st, ast.Assign) and len(st.targets) == 1 and unparse(st.targets[0]) == M.E:
                k = f"{m.fq}|{M.E} = {short(st.value, 30)}"
                v = st.value
                if isinstance(v, ast.Constant) and v.value is False:
                    if m.name == "__init__":
                        rep.ok(rid, k, mod.site(st), "initialisation")
                    else:
                        raise Unsupported(f"{m.fq}: {M.E} is cleared outside __init__")
                elif isinstance(v, ast.Constant) and v.value is True:
                    if chunk is None:
                        rep.violation(rid, k, mod.site(st), f"{M.E} is set in a method that does not read the stream")
                        continue
                    dom = get_cfg(m).dom().get(st, set())
                    if any(_empty_edge(d, chunk) for d in dom):
                        rep.ok(rid, k, mod.site(st), f"only when the read returned b'' ({chunk})")
                    else:
                        rep.violation(rid, k, mod.site(st), f"{M.E} is set without a dominating test that the read returned b'': a short read (socket, pipe, small chunk) is taken for end of stream and the rest of the inventory is never read")
                elif chunk is not None and _emptiness_expr(v, chunk, M.E):
                    rep.ok(rid, k, mod.site(st), f"true exactly when the read returned b'' ({chunk})")
                elif chunk is not None and any(_is_name(x, chunk) for x in ast.walk(v)):
                    rep.violation(rid, k, mod.site(st), f"{M.E} is computed as `{short(v, 40)}`, which is not 'the read returned b\'\'': a short read (socket, pipe, small chunk) is taken for end of stream and the rest of the inventory is never read")
                else:
                    raise Unsupported(f"{m.fq}: value stored to {M.E} not understood: {short(v, 40)}")
    if n_reads < 1:
        raise AnchorMissing(f"{M.ci.fq}: no method reads the stream")
    rep.expect_min(rid, 10, "buffer stores (>=5 on self.buffer), consumption pairs, eof stores, read site")


# ---------------------------------------------------------------------------
# R5 constants agree with Sphinx's loaders and with each other

IDENTITY_CALLS = {"posixpath.join": "Sphinx joins the base uri at load time; MyST keeps base_url separately and joins on use"}


def _sym_eval(e, env: dict, mod) -> tuple:
    """String expression -> tuple of ('c', text) / ('v', role) parts."""
    if isinstance(e, ast.Constant) and isinstance(e.value, str):
        return (("c", e.value),)
    if isinstance(e, ast.Name):
        if e.id in env:
            return env[e.id]
        if isinstance(_const(e), str):
            return (("c", _const(e)),)
        raise Unsupported(f"symbolic value of `{e.id}` unknown")
    if isinstance(e, ast.BinOp) and isinstance(e.op, ast.Add):
        return _sym_eval(e.left, env, mod) + _sym_eval(e.right, env, mod)
    if isinstance(e, ast.JoinedStr):
        out: tuple = ()
        for v in e.values:
            if isinstance(v, ast.Constant):
                out += (("c", str(v.value)),)
            elif isinstance(v, ast.FormattedValue) and v.format_spec is None and v.conversion == -1:
                out += _sym_eval(v.value, env, mod)
            else:
                raise Unsupported(f"f-string part not understood: {short(e, 40)}")
        return out
    if isinstance(e, ast.Call) and mod.resolve(dotted(e.func) or "") in IDENTITY_CALLS and len(e.args) == 2 and isinstance(e.args[0], ast.Name):
        return _sym_eval(e.args[1], env, mod)
    raise Unsupported(f"string expression not understood: {short(e, 50)}")


def _sym_norm(parts: tuple) -> tuple:
    out: list = []
    for k, v in parts:
        if k == "c" and out and out[-1][0] == "c":
            out[-1] = ("c", out[-1][1] + v)
        elif not (k == "c" and v == ""):
            out.append((k, v))
    return tuple(out)


def _sym_show(parts) -> str:
    if parts is None:
        return "None"
    return "".join(v if k == "c" else "{" + v + "}" for k, v in parts) or "''"


def _sym_store(st, env, mod, sentinel, A):
    """(type, name, loc, text, duplicate mode) when ``st`` stores one v1 entry (MyST or Sphinx shape), else None."""
    es = _entry_store_via(A.corpus, A.cur_fi, st) if getattr(A, "cur_fi", None) is not None else _entry_store(st)
    if es is not None and isinstance(es[1], ast.Dict) and _dict_value(es[1], "loc") is not None:  # MyST
        keys, item, mode = es
        hg = _helper_guards(A.corpus, A.cur_fi, st) if getattr(A, "cur_fi", None) is not None else []
        for g, _pol in list(hg) + [(g_, False) for g_ in env.get("\0guards", ())]:
            if any(a[0] == "in" and _is_table(a[2]) for n_ in ast.walk(g) if isinstance(n_, ast.Compare) for a in _atom(n_, True)):
                mode = f"{KEEP_FIRST} when `{short(g, 70)}`"
            else:
                raise Unsupported(f"v1 loop: store guarded by a condition this rule cannot judge: {short(g, 60)}")
        typ = _sym_eval(keys[0], env, mod) + (("c", ":"),) + _sym_eval(keys[1], env, mod)
        name = _sym_eval(keys[2], env, mod)
        loc = _sym_eval(_dict_value(item, "loc"), env, mod)
        tv = _dict_value(item, "text")
        text = None if _is_none(tv) else _sym_norm(_sym_eval(tv, env, mod))
        return _sym_norm(typ), _sym_norm(name), _sym_norm(loc), text, mode
    if not (isinstance(st, ast.Assign) and len(st.targets) == 1 and isinstance(st.targets[0], ast.Subscript)):
        return None
    t = st.targets[0]
    typ_e = name_e = None
    if isinstance(t.slice, ast.Tuple) and len(t.slice.elts) == 2:  # inv[type, name] = ...
        typ_e, name_e = t.slice.elts
    elif isinstance(t.value, ast.Call) and isinstance(t.value.func, ast.Attribute) and t.value.func.attr == "setdefault" and t.value.args:
        typ_e, name_e = t.value.args[0], t.slice  # inv.setdefault(type, {})[name] = ...
    if typ_e is None:
        return None
    v = st.value
    if isinstance(v, ast.Call) and kwarg(v, "uri") is not None and kwarg(v, "display_name") is not None:
        loc_e, text_e = kwarg(v, "uri"), kwarg(v, "display_name")
    elif isinstance(v, ast.Tuple) and len(v.elts) == 4:
        loc_e, text_e = v.elts[2], v.elts[3]
    else:
        return None
    text = _sym_norm(_sym_eval(text_e, env, mod))
    if text == (("c", sentinel),):
        text = None
    return _sym_norm(_sym_eval(typ_e, env, mod)), _sym_norm(_sym_eval(name_e, env, mod)), _sym_norm(_sym_eval(loc_e, env, mod)), text, _sphinx_store_mode(A, st)


def _subst_node(node, old, new):
    """Copy of ``node`` with the sub-node ``old`` (by identity) replaced by ``new``; other nodes are shared."""
    if node is old:
        return new
    if not isinstance(node, ast.AST) or not any(x is old for x in ast.walk(node)):
        return node
    out = type(node)()
    for f in node._fields:
        v = getattr(node, f, None)
        setattr(out, f, [_subst_node(x, old, new) for x in v] if isinstance(v, list) else _subst_node(v, old, new))
    for a in ("lineno", "col_offset", "end_lineno", "end_col_offset", "_mod"):
        if hasattr(node, a):
            setattr(out, a, getattr(node, a))
    return out


def _lower_v1_stmt(st):
    """Rewrite value-level branching of a v1 loop statement into statement-level branching:
    ``x = A if T else B`` -> ``if T: x = A else: x = B``; ``x = TABLE.get(k, d)`` with a literal module table
    -> ``if k == key1: x = v1 ... else: x = d``."""
    if not isinstance(st, (ast.Assign, ast.AugAssign)):
        return st
    for n in ast.walk(st.value):
        if isinstance(n, ast.Lambda):
            return st
        if isinstance(n, ast.IfExp):
            a = _subst_node(st, n, n.body)
            b = _subst_node(st, n, n.orelse)
            x = ast.If(test=n.test, body=[a], orelse=[b])
            ast.copy_location(x, st)
            return x
        if isinstance(n, ast.Call) and isinstance(n.func, ast.Attribute) and n.func.attr == "get" and len(n.args) == 2 and isinstance(n.func.value, (ast.Name, ast.Dict)) and isinstance(n.args[0], ast.Name):
            table = _const(n.func.value)
            if isinstance(n.func.value, ast.Dict):
                try:
                    table = ast.literal_eval(n.func.value)
                except ValueError:
                    table = None
            if isinstance(table, dict) and table and all(isinstance(k_, str) and isinstance(v_, str) for k_, v_ in table.items()):
                cur = _subst_node(st, n, n.args[1])
                for k_, v_ in reversed(list(table.items())):
                    test = ast.Compare(left=n.args[0], ops=[ast.Eq()], comparators=[ast.Constant(k_)])
                    cur = ast.copy_location(ast.If(test=test, body=[_subst_node(st, n, ast.Constant(v_))], orelse=[cur]), st)
                return cur
    return st


def _sym_exec(stmts, env, conds, out, mod, sentinel, skip, A) -> None:
    for i, st in enumerate(stmts):
        if st is skip:
            continue
        st = _lower_v1_stmt(st)
        rec = _sym_store(st, env, mod, sentinel, A)
        if rec is not None:
            out.setdefault(frozenset(conds), []).append(rec)
        elif isinstance(st, ast.Assign) and len(st.targets) == 1 and isinstance(st.targets[0], ast.Name) and _access_chain(st.value)[1] and isinstance(st.value, (ast.Call, ast.Subscript)):
            continue  # a local alias of (part of) the table; the store through it is resolved by _entry_store
        elif isinstance(st, ast.Assign) and len(st.targets) == 1 and isinstance(st.targets[0], ast.Name):
            env[st.targets[0].id] = _sym_eval(st.value, env, mod)
        elif isinstance(st, ast.AugAssign) and isinstance(st.target, ast.Name) and isinstance(st.op, ast.Add):
            env[st.target.id] = _sym_eval(st.target, env, mod) + _sym_eval(st.value, env, mod)
        elif isinstance(st, ast.If) and not st.orelse and len(st.body) == 1 and isinstance(st.body[0], ast.Continue) and any(isinstance(n_, ast.Compare) and isinstance(n_.ops[0], (ast.In, ast.NotIn)) for n_ in ast.walk(st.test)):
            env["\0guards"] = tuple(env.get("\0guards", ())) + (st.test,)  # a skip condition on what is already stored
        elif isinstance(st, ast.If) and isinstance(st.test, ast.Compare) and len(st.test.ops) == 1 and isinstance(st.test.ops[0], (ast.In, ast.NotIn)) and isinstance(st.test.comparators[0], (ast.Tuple, ast.List, ast.Set)) and st.test.comparators[0].elts and all(_cstr(e_) is not None for e_ in st.test.comparators[0].elts):
            # x in ("a", "b")  ->  if x == "a": ... elif x == "b": ... else: ...
            yes, no = (st.body, st.orelse) if isinstance(st.test.ops[0], ast.In) else (st.orelse, st.body)
            cur = list(no)
            for e_ in reversed(st.test.comparators[0].elts):
                cur = [ast.copy_location(ast.If(test=ast.Compare(left=st.test.left, ops=[ast.Eq()], comparators=[e_]), body=list(yes) or [ast.Pass()], orelse=cur), st)]
            _sym_exec(cur + list(stmts[i + 1 :]), env, conds, out, mod, sentinel, skip, A)
            return
        elif isinstance(st, ast.Pass):
            continue
        elif isinstance(st, ast.If):
            test, flip = st.test, False
            while isinstance(test, ast.UnaryOp) and isinstance(test.op, ast.Not):
                test, flip = test.operand, not flip
            if isinstance(test, ast.Compare) and len(test.ops) == 1 and isinstance(test.ops[0], ast.NotEq):
                test, flip = ast.Compare(left=test.left, ops=[ast.Eq()], comparators=test.comparators), not flip
            ec = _eq_const(test)
            if ec is None or not isinstance(ec[0], ast.Name):
                raise Unsupported(f"v1 loop: test not understood: {short(st.test, 50)}")
            val = _sym_norm(_sym_eval(ec[0], env, mod))
            rest = list(stmts[i + 1 :])
            known = None
            if all(k_ == "c" for k_, _ in val):  # the tested value is a constant on this path
                known = ("".join(v_ for _, v_ in val) == ec[1])
            elif len(val) == 1 and val[0][0] == "v":
                for r_, c_, p_ in conds:  # decided by what this path already knows about the field
                    if r_ == val[0][1]:
                        if c_ == ec[1]:
                            known = p_
                        elif p_:
                            known = False
            else:
                raise Unsupported(f"v1 loop: test on a derived value: {short(st.test, 50)}")
            if known is not None:
                _sym_exec(list(st.body if known != flip else st.orelse) + rest, env, conds, out, mod, sentinel, skip, A)
                return
            _sym_exec(list(st.body) + rest, dict(env), conds + [(val[0][1], ec[1], not flip)], out, mod, sentinel, skip, A)
            _sym_exec(list(st.orelse) + rest, dict(env), conds + [(val[0][1], ec[1], flip)], out, mod, sentinel, skip, A)
            return
        elif isinstance(st, ast.Expr) and isinstance(st.value, ast.Call) and isinstance(st.value.func, ast.Attribute) and st.value.func.attr == "setdefault":
            continue  # creates the nested dictionaries; key kinds are judged by R3
        elif isinstance(st, ast.Expr) and isinstance(st.value, ast.Constant):
            continue
        else:
            raise Unsupported(f"v1 loop: statement not understood: {short(st, 60)}")


def _is_blank_line_test(t, line: str) -> bool:
    """``not line`` / ``not line.strip()``: a blank line is skipped."""
    if isinstance(t, ast.UnaryOp) and isinstance(t.op, ast.Not):
        o = t.operand
        if _is_name(o, line):
            return True
        if isinstance(o, ast.Call) and isinstance(o.func, ast.Attribute) and o.func.attr in ("strip", "rstrip", "lstrip") and _is_name(o.func.value, line) and not o.args:
            return True
    return False


def _v1_table(fi: FunctionInfo, sentinel: str, A):
    un = _v1_unpack(fi)
    loop = _enclosing_for(un)
    if loop is None or un not in loop.body:
        raise Unsupported(f"{fi.fq}: v1 entries are not unpacked at the top of a for loop")
    base, chain, fvar = _v1_split_chain(fi, un)
    if not _is_name(base, loop.target.id if isinstance(loop.target, ast.Name) else ""):
        raise Unsupported(f"{fi.fq}: v1 entry does not derive from the loop variable")
    roles = ["NAME", "ITEMTYPE", "LOCATION"]
    env = {e.id: (("v", r),) for e, r in zip(un.targets[0].elts, roles)}
    out: dict = {}
    # statements before the unpacking may only bind the list of fields and skip lines with too few of them
    # (a malformed line may be skipped or fail - both are allowed)
    idx = loop.body.index(un)
    for pre in loop.body[:idx]:
        if isinstance(pre, ast.Assign) and fvar is not None and len(pre.targets) == 1 and _is_name(pre.targets[0], fvar):
            continue
        # a malformed line may be skipped or rejected with an error - both are allowed by the property
        leaves = isinstance(pre, ast.If) and not pre.orelse and len(pre.body) == 1 and isinstance(pre.body[0], (ast.Continue, ast.Raise))
        if leaves and fvar is not None and unparse(pre.test).startswith(f"len({fvar})"):
            continue
        if leaves and isinstance(pre.body[0], ast.Continue) and _is_blank_line_test(pre.test, loop.target.id):
            continue
        if isinstance(pre, ast.Expr) and isinstance(pre.value, ast.Constant):
            continue
        raise Unsupported(f"{fi.fq}: v1 loop: statement before the unpacking not understood: {short(pre, 60)}")
    A.cur_fi = fi
    try:
        _sym_exec(list(loop.body[idx:]), env, [], out, fi.module, sentinel, un, A)
    finally:
        A.cur_fi = None
    return chain, out, loop


def _slice_offset(corpus: Corpus, fi: FunctionInfo, e, ctx: tuple = (), depth: int = 0) -> int:
    """lower bound of the ``[n:]`` slice in the expression that defines ``e`` (followed through one local,
    a helper's parameter - ``ctx`` is the chain of (caller, call) - and a helper's return value)."""
    if depth > 6:
        raise Unsupported(f"{fi.fq}: definition of project name/version too deep")
    if isinstance(e, ast.Name):
        defs = [st for st in fi.local_nodes() if isinstance(st, (ast.Assign, ast.AnnAssign)) and st.value is not None and any(_is_name(n, e.id) and isinstance(n.ctx, ast.Store) for t in (st.targets if isinstance(st, ast.Assign) else [st.target]) for n in ast.walk(t))]
        if not defs and e.id in fi.params and ctx:
            caller, call = ctx[-1]
            arg = _param_arg(fi, call, e.id)
            if arg is None:
                raise Unsupported(f"{fi.fq}: no argument for `{e.id}` at {caller.module.site(call)}")
            return _slice_offset(corpus, caller, arg, ctx[:-1], depth + 1)
        if len(defs) != 1:
            raise Unsupported(f"{fi.fq}: `{e.id}` has {len(defs)} definitions")
        d = defs[0]
        tg = d.targets[0] if isinstance(d, ast.Assign) else d.target
        if isinstance(tg, (ast.Tuple, ast.List)):  # a, b = helper(...)  /  a, b = x[11:], y[11:]
            idx = [i for i, t in enumerate(tg.elts) if _is_name(t, e.id)]
            if len(idx) != 1:
                raise Unsupported(f"{fi.fq}: `{short(d, 50)}` not understood")
            if isinstance(d.value, (ast.Tuple, ast.List)) and len(d.value.elts) == len(tg.elts):
                return _slice_offset(corpus, fi, d.value.elts[idx[0]], ctx, depth + 1)
            if isinstance(d.value, ast.Call):
                t = _callee(corpus, fi, d.value)
                rets = [r for r in t.local_nodes() if isinstance(r, ast.Return)] if t is not None else []
                if len(rets) == 1 and isinstance(rets[0].value, ast.Tuple) and len(rets[0].value.elts) == len(tg.elts):
                    return _slice_offset(corpus, t, rets[0].value.elts[idx[0]], ctx + ((fi, d.value),), depth + 1)
            raise Unsupported(f"{fi.fq}: `{short(d, 50)}` not understood")
        return _slice_offset(corpus, fi, d.value, ctx, depth + 1)
    sl = [n for n in ast.walk(e) if isinstance(n, ast.Subscript) and isinstance(n.slice, ast.Slice)]
    if len(sl) == 1 and sl[0].slice.upper is None and sl[0].slice.step is None and isinstance(_const(sl[0].slice.lower), int):
        return _const(sl[0].slice.lower)
    if not sl and isinstance(e, ast.Call):  # value produced by a helper: follow its single return
        t = _callee(corpus, fi, e)
        rets = [r for r in t.local_nodes() if isinstance(r, ast.Return)] if t is not None else []
        if len(rets) == 1 and rets[0].value is not None:
            return _slice_offset(corpus, t, rets[0].value, ctx + ((fi, e),), depth + 1)
    raise Unsupported(f"{fi.fq}: `{short(e, 50)}` is not a `[n:]` slice")


def _proj_version_exprs(corpus: Corpus, fi: FunctionInfo, ctx: tuple = (), depth: int = 0):
    """(function, call context, name expr, version expr): where project name and version are put into the
    result, in ``fi`` itself or in a private helper it calls (two levels)."""
    for n in fi.local_nodes():
        if isinstance(n, ast.Dict) and _dict_value(n, "name") is not None and _dict_value(n, "version") is not None:
            return fi, ctx, _dict_value(n, "name"), _dict_value(n, "version")
    for n in fi.local_nodes():
        if isinstance(n, ast.Call) and kwarg(n, "project_name") is not None and kwarg(n, "project_version") is not None:
            return fi, ctx, kwarg(n, "project_name"), kwarg(n, "project_version")
    for n in fi.local_nodes():
        if isinstance(n, ast.Assign) and isinstance(n.targets[0], ast.Subscript) and isinstance(n.value, ast.Tuple) and len(n.value.elts) == 4:
            return fi, ctx, n.value.elts[0], n.value.elts[1]
    if depth < 2:
        for call, t in _callees(corpus, fi):
            try:
                return _proj_version_exprs(corpus, t, ctx + ((fi, call),), depth + 1)
            except Unsupported:
                continue
    raise Unsupported(f"{fi.fq}: where project name and version are stored was not found")


def _offsets(corpus: Corpus, fi: FunctionInfo) -> tuple:
    owner, ctx, ne, ve = _proj_version_exprs(corpus, fi)
    return tuple(_slice_offset(corpus, owner, e, ctx) for e in (ne, ve))


def _v2_consts(corpus: Corpus, fi: FunctionInfo, roles: dict, depth: int = 0, out: dict | None = None) -> dict[str, set]:
    top = out is None
    if out is None:
        out = {"substring tests": set(), "type equality": set(), "location suffix": set(), "\0d": set(), "\0o": set()}
        roles = dict(roles)
        for k_, v_ in _type_vars(fi, roles["type"]).items():
            roles.setdefault(k_, v_)
    if depth < 2:  # tests moved into private helpers: follow them with the role variables mapped to parameters
        for call, t in _callees(corpus, fi):
            sub = {}
            for role, var in roles.items():
                ps = [p for p in t.params if _is_name(_param_arg(t, call, p), var)]
                sub[role] = ps[0] if ps else "\0"
            _v2_consts(corpus, t, sub, depth + 1, out)
    for n in fi.local_nodes():
        if isinstance(n, ast.Compare) and len(n.ops) == 1:
            l, r = n.left, n.comparators[0]
            if isinstance(n.ops[0], (ast.In, ast.NotIn)) and _cstr(l) is not None:
                out["substring tests"].add(_cstr(l))
            for a in _atom(n, True):
                if a[0] == "endswith" and _is_name(a[1], roles["loc"]) and _cstr(a[2]) is not None:
                    out["location suffix"].add(_cstr(a[2]))
            for cmp_ in (_tuple_eq_parts(n) or ([ast.Compare(left=l, ops=[ast.Eq()], comparators=[r])] if isinstance(n.ops[0], (ast.Eq, ast.NotEq)) else [])):
                ec = _eq_const(cmp_)
                if ec is not None and _is_name(ec[0], roles["type"]):
                    out["type equality"].add(ec[1])
                if ec is not None and "domain" in roles and _is_name(ec[0], roles["domain"]):
                    out["\0d"].add(ec[1])
                if ec is not None and "objtype" in roles and _is_name(ec[0], roles["objtype"]):
                    out["\0o"].add(ec[1])
        if isinstance(n, ast.Call) and isinstance(n.func, ast.Attribute) and n.func.attr in ("endswith", "removesuffix") and _is_name(n.func.value, roles["loc"]) and n.args and _cstr(n.args[0]) is not None:
            out["location suffix"].add(_cstr(n.args[0]))
        if isinstance(n, ast.Call) and fi.module.resolve(dotted(n.func) or "") in ("re.sub", "re.subn") and len(n.args) >= 3 and _is_name(n.args[2], roles["loc"]) and _cstr(n.args[0]) in ("\\$$", "\\$\\Z", "[$]$", "[$]\\Z"):
            out["location suffix"].add("$")
        if isinstance(n, ast.Call) and isinstance(n.func, ast.Attribute) and n.func.attr in ("split", "rsplit", "partition", "rpartition") and _is_name(n.func.value, roles["type"]) and n.args and _cstr(n.args[0]) is not None:
            out["substring tests"].add(_cstr(n.args[0]))  # the separator plays the role of the substring test
    if top:
        for d_ in out.pop("\0d"):
            for o_ in out.pop("\0o", set()) or ():
                out["type equality"].add(f"{d_}:{o_}")
        out.pop("\0d", None)
        out.pop("\0o", None)
    return out


BYTES_SPLITLINES_BOUNDARIES = frozenset(["\n", "\r", "\r\n"])  # bytes.splitlines(): ASCII line boundaries only


def _text_type(fi: FunctionInfo, e, depth: int = 0) -> str | None:
    """'str' / 'bytes' for an expression, from how it was produced (decode(), bytes literal/join, a method
    annotated -> str / -> bytes, a local bound once)."""
    if depth > 4:
        return None
    if isinstance(e, ast.Constant):
        return "bytes" if isinstance(e.value, bytes) else "str" if isinstance(e.value, str) else None
    if isinstance(e, ast.JoinedStr):
        return "str"
    if isinstance(e, ast.Call) and isinstance(e.func, ast.Attribute):
        a = e.func.attr
        if a == "decode":
            return "str"
        if a == "encode":
            return "bytes"
        if a in ("join", "strip", "rstrip", "lstrip", "replace", "lower", "upper"):
            return _text_type(fi, e.func.value, depth + 1)
        if a in ("decompress", "flush", "read"):
            return "bytes"
        if isinstance(e.func.value, ast.Name) and e.func.value.id == "self" and fi.cls is not None and a in fi.cls.methods:
            r = _ann_text(fi.cls.methods[a].node.returns)
            return "str" if r == "str" else "bytes" if r == "bytes" else None
    if isinstance(e, ast.BinOp) and isinstance(e.op, ast.Add):
        return _text_type(fi, e.left, depth + 1) or _text_type(fi, e.right, depth + 1)
    if isinstance(e, ast.Subscript):
        return _text_type(fi, e.value, depth + 1)
    if isinstance(e, ast.Name):
        for a in fi.node.args.posonlyargs + fi.node.args.args:
            if a.arg == e.id:
                t = _ann_text(a.annotation)
                return t if t in ("str", "bytes") else None
        defs = [d.value for d in fi.local_nodes() if isinstance(d, (ast.Assign, ast.AnnAssign)) and d.value is not None and any(_is_name(t_, e.id) for t_ in (d.targets if isinstance(d, ast.Assign) else [d.target]))]
        kinds = {_text_type(fi, d, depth + 1) for d in defs}
        return kinds.pop() if len(kinds) == 1 else None
    return None


def _splitlines_boundaries(funcs: list[FunctionInfo]) -> set | None:
    """Boundary set of the ``x.splitlines()`` calls in ``funcs``: str.splitlines or bytes.splitlines (ASCII only)."""
    kinds = set()
    for f in funcs:
        for n in f.local_nodes():
            if isinstance(n, ast.Call) and isinstance(n.func, ast.Attribute) and n.func.attr == "splitlines" and not n.args and not n.keywords:
                t = _text_type(f, n.func.value)
                if t is None:
                    raise Unsupported(f"{f.fq}: whether `{short(n, 40)}` splits text or bytes was not understood")
                kinds.add(t)
    if not kinds:
        return None
    if kinds == {"str"}:
        return set(SPLITLINES_BOUNDARIES)
    if kinds == {"bytes"}:
        return set(BYTES_SPLITLINES_BOUNDARIES)
    raise Unsupported(f"{funcs[0].fq}: text and bytes are both split into lines")


def _line_sources(funcs: list[FunctionInfo]) -> set[str]:
    out = set()
    for f in funcs:
        for n in f.local_nodes():
            if isinstance(n, ast.Call) and isinstance(n.func, ast.Attribute) and n.func.attr in ("splitlines", "readlines", "readline", "read_compressed_lines") and not n.args and not n.keywords:
                out.add(n.func.attr)
    return out


def _show_set(s) -> str:
    return "{" + ", ".join(sorted(repr(x) for x in s)) + "}"


@rule("C18.R5")
def r5_constants(corpus: Corpus, rep: Report, tier: str):
    corpus = _view(corpus)
    rep.rule("C18.R5", "header strings, [11:] offsets, v1 templates, v2 test constants, entry and v1-header line boundaries, to_sphinx item type and base-url join, and the '-' sentinel agree with Sphinx and between from/to_sphinx")
    rid = "C18.R5"
    A = _anchors(corpus)
    rep.saw_sibling(SIB)
    ver = A.sphinx_version
    L, S = _myst_loop(corpus), _sphinx_loop(corpus)
    sentinel = _sentinel(A)
    # (1) header constants and their dispatch
    s_cfg = get_cfg(A.s_disp)
    s_hdr: dict[str, str] = {}
    for st in A.s_disp.local_nodes():
        if isinstance(st, ast.Return) and isinstance(st.value, ast.Call) and isinstance(st.value.func, ast.Attribute):
            hs = [_eq_const(t)[1] for t, pol in s_cfg.guards(st) if pol and _eq_const(t) is not None]
            if len(hs) == 1:
                s_hdr[st.value.func.attr] = hs[0]
    for role, mf, sf in (("v1", A.v1, A.s_v1), ("v2", A.v2, A.s_v2)):
        mine = [h for h, f in A.headers.items() if f.fq == mf.fq]
        k = f"{A.load.fq}|header constant {role}"
        if sf.name not in s_hdr:
            raise Unsupported(f"{SIB}: dispatch to {sf.name} not found in {A.s_disp.qualname}")
        if mine == [s_hdr[sf.name]]:
            rep.ok(rid, k, A.load.site(), repr(mine[0]))
        else:
            rep.violation(rid, k, A.load.site(), f"the {role} loader is selected by header {mine!r}, Sphinx {ver} selects it by {s_hdr[sf.name]!r}")
    # (2) offsets of project name / version
    for role, mf, sf in (("v1", A.v1, A.s_v1), ("v2", A.v2, A.s_v2)):
        mo = _offsets(corpus, mf)
        so = _offsets(corpus, sf)
        k = f"{mf.fq}|project/version offsets"
        if mo == so:
            rep.ok(rid, k, mf.site(), f"{mo}")
        else:
            rep.violation(rid, k, mf.site(), f"project name / version are cut at offsets {mo}, Sphinx {ver} cuts at {so}")
    # (3) v1 entry templates
    mchain, mtab, mloop = _v1_table(A.v1, sentinel, A)
    schain, stab, _ = _v1_table(A.s_v1, sentinel, A)
    k = f"{A.v1.fq}|v1 entry split"
    if mchain == schain:
        rep.ok(rid, k, A.v1.module.site(mloop), "line" + "".join(f".{a}({', '.join(b)})" for a, b in mchain))
    else:
        why = ""
        if any(a == "[:n]" for a, _ in mchain) or [b for a, b in mchain if a == "split"] != [b for a, b in schain if a == "split"]:
            why = ": Sphinx splits off the first two fields only and keeps the rest of the line as the location; here the location is cut at its first blank (or the line fails to unpack) and whatever follows is dropped"
        rep.violation(rid, k, A.v1.module.site(mloop), f"v1 lines are taken apart with {mchain}, Sphinx {ver} uses {schain}{why}")
    def compatible(c1, c2) -> bool:
        for r1, k1, p1 in c1:
            for r2, k2, p2 in c2:
                if r1 == r2 and ((k1 == k2 and p1 != p2) or (k1 != k2 and p1 and p2)):
                    return False
        return True

    def under(recs, conds):
        """records with the fields fixed by the path conditions substituted (ITEMTYPE == 'module' -> 'module')"""
        fixed = {r: c for r, c, p in conds if p}
        sub = lambda parts: None if parts is None else _sym_norm(tuple(("c", fixed[v]) if k_ == "v" and v in fixed else (k_, v) for k_, v in parts))
        return None if recs is None else [(sub(t), sub(n), sub(l), sub(x), md) for t, n, l, x, md in recs]

    pairs = {}
    for cm in mtab:
        for c2 in stab:
            if compatible(cm, c2) and compatible(cm, cm) and compatible(c2, c2):
                pairs[frozenset(cm | c2)] = (mtab[cm], stab[c2])
    for cm in mtab:
        if not any(compatible(cm, c2) for c2 in stab):
            pairs[cm] = (mtab[cm], None)
    for c2 in stab:
        if not any(compatible(cm, c2) for cm in mtab):
            pairs[c2] = (None, stab[c2])
    for conds in sorted(pairs, key=lambda c: sorted(map(str, c))):
        cs = " and ".join(f"{r} {'==' if p else '!='} {c!r}" for r, c, p in sorted(conds)) or "always"
        k = f"{A.v1.fq}|v1 entry where {cs}"
        m_, s_ = under(pairs[conds][0], conds), under(pairs[conds][1], conds)
        show = lambda recs: "; ".join(f"type={_sym_show(t)} name={_sym_show(n)} loc={_sym_show(l)} text={_sym_show(x)} ({md})" for t, n, l, x, md in recs) if recs else "no store"
        if m_ == s_ and m_ is not None and len(m_) == 1:
            rep.ok(rid, k, A.v1.module.site(mloop), show(m_))
        else:
            rep.violation(rid, k, A.v1.module.site(mloop), f"v1 entry with {cs}: stored as [{show(m_)}], Sphinx {ver} stores [{show(s_)}]")
    # (4) constants tested by the v2 loader
    mc, sc = _v2_consts(corpus, L.fi, L.roles), _v2_consts(corpus, S.fi, S.roles)
    for what in mc:
        k = f"{L.fi.fq}|{what}"
        if mc[what] == sc[what] and mc[what]:
            rep.ok(rid, k, L.fi.site(), _show_set(mc[what]))
        elif not mc[what]:
            raise Unsupported(f"{L.fi.fq}: no {what} recognised (whether the rule itself is present is judged by R2)")
        else:
            rep.violation(rid, k, L.fi.site(), f"{what} use {_show_set(mc[what])}, Sphinx {ver} uses {_show_set(sc[what])}")
    # (5) the display-name sentinel: to_sphinx writes it, from_sphinx and Sphinx's v1 loader agree
    fs = A.from_sphinx
    fstores = [st for st in fs.local_nodes() if isinstance(st, ast.stmt) and _objects_store_any(st)]
    fitem = _item_dict(fs, _entry_store(fstores[0], rooted=False)[1]) if len(fstores) == 1 else None
    if fitem is None or _dict_value(fitem, "text") is None:
        raise Unsupported(f"{fs.fq}: item store not understood")
    samples = ["", sentinel, "x"]
    fscope = {n for n in fs.local_nodes() if isinstance(n, ast.stmt)}
    probs = _text_problems(samples, _text_outcomes(fs, _dict_value(fitem, "text"), fstores[0], fscope, None, samples, corpus))
    k = f"{fs.fq}|display name sentinel"
    if not probs:
        rep.ok(rid, k, fs.module.site(fstores[0]), f"'' and {sentinel!r} -> None, everything else kept (to_sphinx writes {sentinel!r} for None; {len(samples)} abstract values)")
    else:
        rep.violation(rid, k, fs.module.site(fstores[0]), f"from_sphinx(to_sphinx(inv)) != inv: to_sphinx writes {sentinel!r} only for None, but in from_sphinx " + "; ".join(probs))
    s_sent = set()
    for recs in stab.values():
        for rec in recs:
            s_sent.add(rec[3])
    k = f"{A.to_sphinx.fq}|sentinel equals Sphinx's"
    if s_sent == {None}:
        rep.ok(rid, k, A.to_sphinx.site(), repr(sentinel))
    else:
        rep.violation(rid, k, A.to_sphinx.site(), f"to_sphinx writes {sentinel!r} for a missing display name, Sphinx {ver}'s v1 loader writes {_show_set({_sym_show(x) for x in s_sent})}")
    # (6) line boundaries
    M = _reader(corpus)
    seps = M.separators()
    bounds: dict = {}
    for role, srcs, meth_attr in (("v1", _line_sources([A.s_v1, A.s_disp]), _line_sources([A.v1])), ("v2", _line_sources([A.s_v2]), _line_sources([A.v2]))):
        srcs -= {"readline"}
        meth_attr -= {"readline"}
        if srcs == {"splitlines"}:
            s_bound = _splitlines_boundaries([A.s_v1, A.s_disp] if role == "v1" else [A.s_v2])
        elif srcs and srcs <= {"readlines", "read_compressed_lines"}:
            s_bound = {"\n"}
        else:
            raise Unsupported(f"{SIB}: how {role} entry lines are produced was not understood ({sorted(srcs)})")
        if "splitlines" in meth_attr:  # whatever produced the text, it is split again at every splitlines() boundary
            m_bound, where, site = _splitlines_boundaries([A.v1 if role == "v1" else A.v2]), f"{(A.v1 if role == 'v1' else A.v2).fq}", (A.v1 if role == "v1" else A.v2).site()
        elif len(meth_attr) == 1 and next(iter(meth_attr)) in M.ci.methods:
            meth = M.ci.methods[next(iter(meth_attr))]
            # follow readlines -> readline
            fqs = [meth.fq] + [M.ci.methods[c.func.attr].fq for c in meth.local_nodes() if isinstance(c, ast.Call) and isinstance(c.func, ast.Attribute) and _is_name(c.func.value, "self") and c.func.attr in M.ci.methods]
            bs = set()
            uses_splitlines = "splitlines" in _line_sources([meth])
            for fq in fqs:
                bs |= {s.decode("latin1") for s in seps.get(fq, set())}
            if uses_splitlines:
                # lines cut at a subset of the splitlines boundaries and then split again with
                # splitlines() end exactly at the boundaries of that splitlines (str: all, bytes: LF/CR/CRLF)
                sb = _splitlines_boundaries([meth])
                if not bs <= sb:
                    raise Unsupported(f"{meth.fq}: separator {sorted(bs)} combined with splitlines()")
                bs = sb
            if not bs:
                splitting = [c for f_ in fqs for mm in M.methods if mm.fq == f_ for c in mm.local_nodes() if isinstance(c, ast.Call) and ((isinstance(c.func, ast.Attribute) and c.func.attr in ("split", "rsplit", "splitlines", "find", "rfind", "index", "partition", "rpartition", "finditer", "findall")) or (dotted(c.func) or "").startswith("re."))]
                if splitting:
                    raise Unsupported(f"{meth.fq}: line separator not found")
                # nothing cuts the text into lines: the rest of the stream is handed out as one line
            m_bound, where, site = bs, meth.fq, meth.site()
        else:
            raise Unsupported(f"how MyST produces {role} entry lines was not understood ({sorted(meth_attr)})")
        bounds[role] = (m_bound, s_bound)
        k = f"{where}|{role} entry line boundaries"
        if m_bound == s_bound:
            rep.ok(rid, k, site, _show_set(m_bound))
        else:
            extra = sorted(s_bound - m_bound - {"\r\n"})
            how = " (bytes.splitlines() knows the ASCII boundaries only)" if m_bound == set(BYTES_SPLITLINES_BOUNDARIES) else ""
            rep.violation(rid, k, site, f"{role} entry lines end at {_show_set(m_bound)} only{how}; Sphinx {ver} splits the decoded text with str.splitlines(), i.e. also at {extra!r}: an entry whose name or display name contains one of these is one entry here and two lines in Sphinx")
    # (7) v1 header lines are cut like the entry lines (Sphinx takes both from one str.splitlines() list)
    own1, ctx1, ne1, ve1 = _proj_version_exprs(corpus, A.v1)
    s_own, _sctx, sne, sve = _proj_version_exprs(corpus, A.s_v1)

    def header_source(fi_, e_, ctx_=(), depth=0):
        """'readline' / 'iter' (next() of the entry-line iterator) / 'list' (an element of the entry-line list):
        where a header line comes from - followed through locals, a helper's tuple return, and a callable
        parameter of a helper (``readline()`` with ``readline := stream.readline`` or ``lambda: next(lines, "")``)."""
        if depth > 6:
            return None
        d_ = e_
        if isinstance(d_, ast.Name):
            ds = [x for x in fi_.local_nodes() if isinstance(x, ast.Assign) and any(isinstance(n_, ast.Name) and n_.id == d_.id and isinstance(n_.ctx, ast.Store) for t_ in x.targets for n_ in ast.walk(t_))]
            if len(ds) != 1:
                return None
            tg = ds[0].targets[0]
            if isinstance(tg, (ast.Tuple, ast.List)):
                idx = [i_ for i_, t_ in enumerate(tg.elts) if _is_name(t_, d_.id)]
                v_ = ds[0].value
                if len(idx) == 1 and isinstance(v_, (ast.Tuple, ast.List)) and len(v_.elts) == len(tg.elts):
                    return header_source(fi_, v_.elts[idx[0]], ctx_, depth + 1)
                if len(idx) == 1 and isinstance(v_, ast.Call):
                    t2 = _callee(corpus, fi_, v_)
                    rets = [r for r in t2.local_nodes() if isinstance(r, ast.Return)] if t2 is not None else []
                    if len(rets) == 1 and isinstance(rets[0].value, ast.Tuple) and len(rets[0].value.elts) == len(tg.elts):
                        return header_source(t2, rets[0].value.elts[idx[0]], ctx_ + ((fi_, v_),), depth + 1)
                return None
            return header_source(fi_, ds[0].value, ctx_, depth + 1)
        for x in ast.walk(d_):
            if isinstance(x, ast.Call) and isinstance(x.func, ast.Attribute) and x.func.attr == "readline":
                return "readline"
            if isinstance(x, ast.Call) and isinstance(x.func, ast.Name) and x.func.id in fi_.params and ctx_:
                # a callable handed in by the caller
                caller, call = ctx_[-1]
                arg = _param_arg(fi_, call, x.func.id)
                if isinstance(arg, ast.Lambda):
                    return header_source(caller, arg.body, ctx_[:-1], depth + 1)
                if isinstance(arg, ast.Attribute) and arg.attr == "readline":
                    return "readline"
                if isinstance(arg, ast.Attribute) and arg.attr == "__next__" and isinstance(arg.value, ast.Name):
                    return header_source(caller, ast.Call(func=ast.Name(id="next", ctx=ast.Load()), args=[arg.value], keywords=[]), ctx_[:-1], depth + 1)
                return None
            if isinstance(x, ast.Call) and isinstance(x.func, ast.Name) and x.func.id == "next" and x.args and isinstance(x.args[0], ast.GeneratorExp) and any(g.ifs for g in x.args[0].generators):
                return "filtered"  # next(l for l in lines if l): the position of a header line depends on the other lines
            if isinstance(x, ast.Call) and isinstance(x.func, ast.Name) and x.func.id == "next" and x.args and isinstance(x.args[0], ast.Name):
                ds = [y for y in fi_.local_nodes() if isinstance(y, ast.Assign) and any(_is_name(t_, x.args[0].id) for t_ in y.targets)]
                if len(ds) == 1 and any(isinstance(z, ast.Call) and isinstance(z.func, ast.Attribute) and z.func.attr == "readlines" for z in ast.walk(ds[0].value)):
                    return "iter"
            if isinstance(x, ast.Subscript) and isinstance(x.value, ast.Name) and not isinstance(x.slice, ast.Slice) and isinstance(_const(x.slice), int):
                return "list"
        return None

    for what, me_, se_ in (("project", ne1, sne), ("version", ve1, sve)):
        ms_, ss_ = header_source(own1, me_, ctx1), header_source(s_own, se_, _sctx)
        # positional header lines need an unfiltered line sequence (Sphinx: lines[0], lines[1] of splitlines())
        if ss_ in ("list", "iter") and ms_ in ("list", "iter", "filtered"):
            kp = f"{A.v1.fq}|v1 {what} line taken by position from every line"
            dropped = None
            if ms_ == "filtered":
                dropped = (own1.module.site(me_), "the header line is the next line that passes a filter")
            else:
                for mname in sorted(_line_sources([A.v1]) & set(M.ci.methods)):
                    lm = M.ci.methods[mname]
                    lcfg = get_cfg(lm)
                    # names that hold a line inside the line source: results of readline(), items of splitlines()
                    lvars = {n_.targets[0].id for n_ in lm.local_nodes() if isinstance(n_, ast.Assign) and len(n_.targets) == 1 and isinstance(n_.targets[0], ast.Name) and any(isinstance(c_, ast.Call) and isinstance(c_.func, ast.Attribute) and c_.func.attr in ("readline", "decode") for c_ in ast.walk(n_.value))}
                    lvars |= {n_.target.id for n_ in lm.local_nodes() if isinstance(n_, (ast.For, ast.comprehension)) and isinstance(n_.target, ast.Name) and any(isinstance(c_, ast.Call) and isinstance(c_.func, ast.Attribute) and c_.func.attr in ("splitlines", "split") for c_ in ast.walk(n_.iter))}
                    for y in lm.local_nodes():
                        if isinstance(y, (ast.Yield, ast.YieldFrom)):
                            for t_, pol_ in lcfg.guards(lcfg.stmt_of(y)):
                                if any(isinstance(n_, ast.Name) and n_.id in lvars for n_ in ast.walk(t_)):
                                    dropped = (lm.module.site(y), f"{lm.qualname} yields a line only when `{'' if pol_ else 'not '}{short(t_, 40)}`")
                        if isinstance(y, (ast.GeneratorExp, ast.ListComp)) and any(g.ifs and any(isinstance(n_, ast.Name) and n_.id == getattr(g.target, "id", None) for i_ in g.ifs for n_ in ast.walk(i_)) for g in y.generators) and any(isinstance(c_, ast.Call) and isinstance(c_.func, ast.Attribute) and c_.func.attr in ("splitlines", "split") for g in y.generators for c_ in ast.walk(g.iter)):
                            dropped = (lm.module.site(y), f"{lm.qualname} filters the lines it yields (`{short(y, 50)}`)")
            if dropped is None:
                rep.ok(rid, kp, own1.module.site(me_), "the line source yields every line, blank ones included")
            else:
                rep.violation(rid, kp, dropped[0], f"{dropped[1]}: the v1 '# {what.capitalize()}:' line is identified by its position, so when it (or the line before it) is blank the next entry line is taken for it - the {what} becomes the tail of that entry and the entry is lost, whereas Sphinx {ver} takes lines[0] / lines[1] of the unfiltered str.splitlines() list")
            if ms_ == "filtered":
                continue
        k = f"{A.v1.fq}|v1 {what} line boundaries"
        if ms_ is None or ss_ is None:
            raise Unsupported(f"where the v1 {what} line comes from was not understood ({ms_}, {ss_})")
        s_hdr_bound = bounds["v1"][1] if ss_ in ("list", "iter") else {"\n"}
        m_hdr_bound = bounds["v1"][0] if ms_ in ("list", "iter") else {s.decode("latin1") for s in seps.get(M.ci.methods["readline"].fq, set())} if "readline" in M.ci.methods else None
        if not m_hdr_bound:
            raise Unsupported(f"{A.v1.fq}: boundary of the v1 {what} line not found")
        if m_hdr_bound == s_hdr_bound:
            rep.ok(rid, k, own1.site(), _show_set(m_hdr_bound) if len(m_hdr_bound) < 3 else "str.splitlines boundaries, as the entry lines")
        else:
            rep.violation(rid, k, own1.module.site(me_), f"the v1 '# {what.capitalize()}:' line is cut at {_show_set(m_hdr_bound)} only while Sphinx {ver} takes it from the same str.splitlines() list as the entries: when the line ends with a carriage return (or another splitlines boundary) the following entries are swallowed into the {what} string and lost")
    # (8) to_sphinx: the location includes the base url, joined as Sphinx's loader joins it
    ts = A.to_sphinx
    tstores = [st for st in ts.local_nodes() if isinstance(st, ast.Assign) and len(st.targets) == 1 and isinstance(st.targets[0], ast.Subscript) and Kinds(ts, _kind_seeds(corpus, ts, {}), corpus).kind(st.targets[0].value) == ("S", 1)]
    if len(tstores) != 1:
        raise Unsupported(f"{ts.fq}: store into the Sphinx-format table not found")
    tval = tstores[0].value

    def item_parts(fi_, v_, depth=0):
        """[(kind, ctor dotted or None, {role: expr})] for what the value can be: a 4-tuple or a constructor call,
        possibly made by a private helper (roles: project, version, uri, text)."""
        roles4 = ["project", "version", "uri", "text"]
        if isinstance(v_, ast.Tuple) and len(v_.elts) == 4:
            return [("tuple", None, dict(zip(roles4, v_.elts)))]
        if isinstance(v_, ast.Call):
            kws = {kw.arg: kw.value for kw in v_.keywords if kw.arg}
            if "uri" in kws:
                rn = {"project_name": "project", "project_version": "version", "uri": "uri", "display_name": "text"}
                return [("class", fi_.module.resolve(dotted(v_.func) or ""), {rn.get(k_, k_): x for k_, x in kws.items()}, tuple(sorted(kws)))]
            t_ = _callee(corpus, fi_, v_)
            if t_ is not None and depth < 2 and not t_.is_lambda:
                out_ = []
                for r_ in [x for x in t_.local_nodes() if isinstance(x, ast.Return) and x.value is not None]:
                    for part in item_parts(t_, r_.value, depth + 1):
                        mapped = {}
                        for role_, ex_ in part[2].items():
                            mapped[role_] = _param_arg(t_, v_, ex_.id) if isinstance(ex_, ast.Name) and ex_.id in t_.params else None
                        out_.append(part[:2] + (mapped,) + part[3:])
                return out_
        return []

    parts = item_parts(ts, tval)
    if not parts:
        raise Unsupported(f"{ts.fq}: the stored item `{short(tval, 50)}` was not understood")
    s_parts = [p_ for st in S.body_stmts if _sphinx_store_mode(A, st) is not None for p_ in item_parts(S.fi, st.value)]
    if len(s_parts) != 1:
        raise Unsupported(f"{SIB}: item stored by {S.fi.qualname} not understood")
    k = f"{ts.fq}|item type equals what Sphinx's loader stores"
    want = s_parts[0]
    same = [p_ for p_ in parts if p_[0] == want[0] and (want[0] == "tuple" or (p_[1] == f"sphinx.util.inventory.{want[1].rsplit('.', 1)[-1]}" and p_[3] == want[3]))]
    if same:
        rep.ok(rid, k, ts.module.site(tval), "4-tuple" if want[0] == "tuple" else f"{want[1].rsplit('.', 1)[-1]}({', '.join(want[3])})")
    else:
        rep.violation(rid, k, ts.module.site(tval), f"to_sphinx stores {sorted({p_[0] for p_ in parts})} items, Sphinx {ver}'s loader stores {want[1].rsplit('.', 1)[-1] if want[0] == 'class' else '4-tuples'}({', '.join(want[3]) if want[0] == 'class' else ''}): the converted inventory never equals the one Sphinx loads and lacks the attributes intersphinx reads")
    uri_e = next((p_[2].get("uri") for p_ in (same or parts) if p_[2].get("uri") is not None), None)
    k = f"{ts.fq}|location includes the base url"
    if uri_e is None:
        raise Unsupported(f"{ts.fq}: the uri of the stored item was not found")
    # every expression the uri can come from
    srcs_, work_, seen_ = [], [_inline(corpus, ts, uri_e)], set()
    while work_:
        x = work_.pop()
        srcs_.append(x)
        for n_ in ast.walk(x):
            if isinstance(n_, ast.Name) and n_.id not in seen_:
                seen_.add(n_.id)
                work_ += [_inline(corpus, ts, d.value) for d in ts.local_nodes() if isinstance(d, ast.Assign) and any(_is_name(t_, n_.id) for t_ in d.targets)]
    s_join = {S.fi.module.resolve(dotted(c.func) or "") for c in S.fi.local_nodes() if isinstance(c, ast.Call) and S.fi.module.resolve(dotted(c.func) or "") in IDENTITY_CALLS}
    joins = [c for x in srcs_ for c in ast.walk(x) if isinstance(c, ast.Call) and ts.module.resolve(dotted(c.func) or "") in s_join]
    uses_base = any(_cstr(n_.slice) == "base_url" for x in srcs_ for n_ in ast.walk(x) if isinstance(n_, ast.Subscript)) or any(isinstance(n_, ast.Call) and isinstance(n_.func, ast.Attribute) and n_.func.attr == "get" and n_.args and _cstr(n_.args[0]) == "base_url" for x in srcs_ for n_ in ast.walk(x))
    if not s_join:
        rep.ok(rid, k, ts.module.site(uri_e), f"Sphinx {ver} does not join a base uri")
    elif joins and uses_base:
        rep.ok(rid, k, ts.module.site(joins[0]), f"{sorted(s_join)[0]}(base_url, loc), as Sphinx's loader")
    else:
        rep.violation(rid, k, ts.module.site(uri_e), f"the uri of a converted item is `{short(uri_e, 40)}`, which does not go through {sorted(s_join)[0]}(base_url, loc): for an inventory loaded with a base_url, to_sphinx yields the relative location where Sphinx {ver}'s loader stores the full URL")
    # (9) the conversions carry the location over verbatim: the '$' shorthand, anchors etc. are syntax of the FILE and
    #     were resolved by the loader; in memory a location is literal (Sphinx's too), so apart from the base-url join
    #     nothing may rewrite it - a second expansion changes a location that legitimately ends in '$'
    MUTATORS = {"replace", "strip", "rstrip", "lstrip", "removesuffix", "removeprefix", "lower", "upper", "format", "join", "split", "partition", "rpartition", "rsplit", "sub", "subn", "quote", "unquote", "translate"}

    def rewriting(x):
        """the first construct in ``x`` that builds a new string instead of passing one on"""
        for n_ in ast.walk(x):
            if isinstance(n_, ast.Call) and ts.module.resolve(dotted(n_.func) or "") in s_join:
                continue
            if isinstance(n_, (ast.BinOp, ast.JoinedStr)):
                return n_
            if isinstance(n_, ast.Subscript) and isinstance(n_.slice, ast.Slice):
                return n_
            if isinstance(n_, ast.Call) and isinstance(n_.func, ast.Attribute) and n_.func.attr in MUTATORS and not (n_.func.attr == "join" and x.__class__ is ast.Call and n_ is x):
                return n_
        return None

    k = f"{ts.fq}|location carried over verbatim"
    bad_ = next((r_ for x in srcs_ for r_ in [rewriting(x)] if r_ is not None), None)
    if bad_ is None:
        rep.ok(rid, k, ts.module.site(uri_e), "item['loc'], only joined to the base url")
    else:
        rep.violation(rid, k, ts.module.site(bad_), f"to_sphinx rewrites the location (`{short(bad_, 50)}`): the loader has already resolved the file syntax ('$' shorthand), in memory a location is literal - one that legitimately ends in '$' (or contains what is rewritten) is changed again, so to_sphinx(load(x)) differs from what Sphinx loads and from_sphinx(to_sphinx(inv)) != inv")
    f_loc = _dict_value(fitem, "loc")
    k = f"{fs.fq}|location carried over verbatim"
    if f_loc is None:
        raise Unsupported(f"{fs.fq}: stored item has no literal \"loc\" entry")
    fsrcs, fwork, fseen = [], [_inline(corpus, fs, f_loc)], set()
    while fwork:
        x = fwork.pop()
        fsrcs.append(x)
        for n_ in ast.walk(x):
            if isinstance(n_, ast.Name) and n_.id not in fseen:
                fseen.add(n_.id)
                fwork += [_inline(corpus, fs, d.value) for d in fs.local_nodes() if isinstance(d, ast.Assign) and any(_is_name(t_, n_.id) for t_ in d.targets)]
    bad_ = next((r_ for x in fsrcs for r_ in [rewriting(x)] if r_ is not None), None)
    if bad_ is None:
        rep.ok(rid, k, fs.module.site(f_loc), "the Sphinx item's uri")
    else:
        rep.violation(rid, k, fs.module.site(bad_), f"from_sphinx rewrites the location (`{short(bad_, 50)}`): a Sphinx in-memory uri is literal, so the converted inventory points somewhere else and the round trip is not lossless")
    rep.expect_min(rid, 14, "2 headers, 2 offset pairs, v1 split + 2 paths, 3 constant sets, 2 sentinels, 2 boundary sets")


def _objects_store_any(st) -> bool:
    """a store of one item at [d][o][n] (root may be a local table rather than rec["objects"])."""
    es = _entry_store(st, rooted=False)
    if es is None:
        return False
    keys, item = es[0], es[1]
    if isinstance(item, ast.Dict):
        return _dict_value(item, "loc") is not None and _dict_value(item, "text") is not None
    return isinstance(item, ast.Name) and len(keys) >= 3


RULES = [r1_regex_equals_sphinx, r2_rule_chain, r3_key_kinds, r4_buffer_conservation, r5_constants]

# ---------------------------------------------------------------------------
# mutants of the current tree


def mutants(corpus: Corpus):
    out: list = []
    A = _anchors(corpus)
    inv = A.inv
    src, rel = inv.src, inv.rel
    L = _myst_loop(corpus)
    R = L.roles
    v2, v1 = A.v2, A.v1

    def add(mid, rid, node, text, expect="", canary=False):
        if node is None:
            out.append((mid, "construct not found on this tree"))
        else:
            out.append(Mutant(mid, rid, rel, splice(src, node, text), expect=expect, canary=canary))

    def add2(mid, rid, edits, expect="", canary=False):
        """several node replacements in one mutant (applied back to front)."""
        if any(n is None for n, _ in edits):
            out.append((mid, "construct not found on this tree"))
            return
        text = src
        for node, new in sorted(edits, key=lambda e: (e[0].lineno, e[0].col_offset), reverse=True):
            text = splice(text, node, new)
        out.append(Mutant(mid, rid, rel, text, expect=expect, canary=canary))

    # --- R1
    pat = arg_or_kw(L.call, 0, "pattern")
    if isinstance(pat, ast.Constant) and "(-?\\d+)" in pat.value:
        add("c18-regex-negative-priority-dropped", "C18.R1", pat, "r" + repr(pat.value.replace("(-?\\d+)", "(\\d+)")), "regex tree", canary=True)
        add("c18-regex-location-mandatory", "C18.R1", pat, "r" + repr(pat.value.replace("(\\S*)", "(\\S+)")), "regex tree")
    else:
        out.append(("c18-regex-negative-priority-dropped", "regex is not a literal with (-?\\d+)"))
    add("c18-regex-subject-not-stripped", "C18.R1", L.subject, L.loop.target.id, "regex subject")
    fn = L.call.func
    add("c18-regex-search", "C18.R1", fn, f"{unparse(fn.value)}.search" if isinstance(fn, ast.Attribute) else "re.search", "match function")
    # --- R2
    colon_if = find_node(v2, lambda n: isinstance(n, ast.If) and any(a[0] == "in" and _cstr(a[1]) == ":" and _is_name(a[2], R["type"]) for a in _atom(n.test, True)))
    add("c18-colon-check-dropped", "C18.R2", colon_if.test if colon_if else None, "False", "dominated by the ':' test", canary=True)
    sp = find_node(v2, lambda n: isinstance(n, ast.Call) and isinstance(n.func, ast.Attribute) and n.func.attr == "split" and _is_name(n.func.value, R["type"]))
    add("c18-split-every-colon", "C18.R2", sp, f"{R['type']}.split(\":\")", "first ':' only")
    # class "domain:objtype cut at the wrong colon"
    add("c18-split-at-last-colon", "C18.R2", sp, f"{R['type']}.rsplit(\":\", 1)", "LAST ':'")
    spa = parent(sp) if sp is not None else None
    if isinstance(spa, ast.Assign) and isinstance(spa.targets[0], ast.Tuple) and len(spa.targets[0].elts) == 2:
        d_, o_ = (unparse(e) for e in spa.targets[0].elts)
        add("c18-split-rpartition", "C18.R2", spa, f"{d_}, _sep, {o_} = {R['type']}.rpartition(\":\")", "LAST ':'")
    fsp = find_node(A.from_sphinx, lambda n: isinstance(n, ast.Call) and isinstance(n.func, ast.Attribute) and n.func.attr == "split" and len(n.args) == 2 and _cstr(n.args[0]) == ":")
    add("c18-from-sphinx-split-at-last-colon", "C18.R2", fsp, f"{unparse(fsp.func.value)}.rsplit(\":\", 1)" if fsp is not None else "", "LAST ':'")
    fs = A.from_sphinx
    fs_if = find_node(fs, lambda n: isinstance(n, ast.If) and any(a[0] == "in" and _cstr(a[1]) == ":" for a in _atom(n.test, True)))
    add("c18-from-sphinx-colon-check-dropped", "C18.R2", fs_if.test if fs_if else None, "False", "from_sphinx")
    pm_if = find_node(v2, lambda n: isinstance(n, ast.If) and "py:module" in unparse(n.test))
    add("c18-py-module-rule-dropped", "C18.R2", pm_if.test if pm_if else None, "False", "py:module duplicate rule")
    # class "first-wins duplicate rule applied where Sphinx overwrites"
    memb = find_node(v2, lambda n: isinstance(n, ast.Compare) and isinstance(n.ops[0], ast.In) and pm_if is not None and any(n is x for x in ast.walk(pm_if.test)))
    if memb is not None:
        b_, k_ = _access_chain(memb.comparators[0])
        if len(k_) == 3:
            add("c18-py-module-presence-in-wrong-table", "C18.R2", memb.comparators[0], f'{unparse(b_)}["objects"].get("py", {{}}).get("mod", {{}})', "presence looked up")
    add("c18-first-wins-for-every-type", "C18.R2", pm_if.test if (pm_if is not None and memb is not None) else None, ast.get_source_segment(src, memb) if memb is not None else "", "py:module duplicate rule")
    v1st = find_node(v1, lambda n: isinstance(n, ast.Assign) and _entry_store(n) is not None)
    if v1st is not None:
        k1 = _entry_store(v1st)[0]
        base1 = unparse(_access_chain(v1st.targets[0])[0])
        ind1 = " " * v1st.col_offset
        guard = f"if {unparse(k1[0])} == \"py\" and {unparse(k1[1])} == \"module\" and {unparse(k1[2])} in {base1}[\"objects\"].get({unparse(k1[0])}, {{}}).get({unparse(k1[1])}, {{}}):\n{ind1}    continue\n{ind1}"
        add("c18-v1-first-module-wins", "C18.R5", v1st, guard + ast.get_source_segment(src, v1st), "the first entry is kept when")
    else:
        out.append(("c18-v1-first-module-wins", "v1 store is not a subscript assignment"))
    dl_if = find_node(v2, lambda n: isinstance(n, ast.If) and any(a[0] == "endswith" for a in _atom(n.test, True)))
    add("c18-dollar-expansion-dropped", "C18.R2", dl_if.test if dl_if else None, "False", "$ expansion")
    if dl_if is not None and isinstance(dl_if.body[0], ast.Assign):
        add("c18-dollar-not-stripped", "C18.R2", dl_if.body[0].value, f"{R['loc']} + {R['name']}", "$ expansion")
        # class "data used as a template / every occurrence replaced"
        add("c18-dollar-via-re-sub-template", "C18.R2", dl_if, f'{R["loc"]} = re.sub(r"\\$$", {R["name"]}, {R["loc"]})', "replacement template")
        add("c18-dollar-every-occurrence-replaced", "C18.R2", dl_if, f'{R["loc"]} = {R["loc"]}.replace("$", {R["name"]})', "replaces every")
    tx_if = find_node(v2, lambda n: isinstance(n, ast.If) and len(n.body) == 1 and isinstance(n.body[0], ast.Assign) and _is_none(n.body[0].value) and _is_name(n.body[0].targets[0], R["text"]))
    add("c18-empty-display-name-kept", "C18.R2", tx_if.test if tx_if else None, f"{R['text']} == \"-\"", "display name sentinel")
    store = find_node(v2, lambda n: _objects_store(n) is not None and n in L.body_stmts)
    if store is not None:
        ind = " " * store.col_offset
        add("c18-store-only-with-location", "C18.R2", store, f"if {R['loc']}:\n{ind}    " + ast.get_source_segment(src, store), "store guarded by")
        es = _entry_store(store)
        if isinstance(store, ast.Assign) and es is not None:
            tgt = store.targets[0]
            add("c18-store-via-setdefault-first-wins", "C18.R2", store, f"{ast.get_source_segment(src, tgt.value)}.setdefault({unparse(tgt.slice)}, {ast.get_source_segment(src, store.value)})", "duplicate entries")
    v1store = find_node(v1, lambda n: isinstance(n, ast.Assign) and _entry_store(n) is not None)
    if v1store is not None:
        tgt = v1store.targets[0]
        add("c18-v1-store-via-setdefault-first-wins", "C18.R5", v1store, f"{ast.get_source_segment(src, tgt.value)}.setdefault({unparse(tgt.slice)}, {ast.get_source_segment(src, v1store.value)})", "v1 entry where")
    else:
        out.append(("c18-v1-store-via-setdefault-first-wins", "v1 store is not a subscript assignment"))
    if tx_if is not None:
        add("c18-load-v2-text-equal-to-name-dropped", "C18.R2", tx_if.test, f"not {R['text']} or {R['text']} in (\"-\", {R['name']})", "display name sentinel")
    # class "cache keyed on fewer inputs than the cached value depends on"
    sd = find_node(v2, lambda n: isinstance(n, ast.Expr) and isinstance(n.value, ast.Call) and isinstance(n.value.func, ast.Attribute) and n.value.func.attr == "setdefault" and n in L.body_stmts and _access_chain(n.value)[1][:1] and _cstr(_access_chain(n.value)[1][0]) == "objects")
    pre_loop = None
    for b_i, b_st in enumerate(v2.node.body):
        if b_st is L.loop and b_i > 0:
            pre_loop = v2.node.body[b_i - 1]
    if isinstance(store, ast.Assign) and sd is not None and pre_loop is not None and len(_access_chain(sd.value)[1]) == 3:
        kk = _access_chain(sd.value)[1]
        i0, i1 = " " * pre_loop.col_offset, " " * sd.col_offset
        for tag, key in (("objtype", unparse(kk[2])), ("domain", unparse(kk[1]))):
            add2(f"c18-table-cache-keyed-on-{tag}-only", "C18.R2", [
                (pre_loop, f"{ast.get_source_segment(src, pre_loop)}\n{i0}current = None\n{i0}items = {{}}"),
                (sd, f"if {key} != current:\n{i1}    items = {ast.get_source_segment(src, sd.value)}\n{i1}    current = {key}"),
                (store.targets[0], f"items[{unparse(store.targets[0].slice)}]"),
            ], "looked up again whenever its keys change")
    else:
        out.append(("c18-table-cache-keyed-on-objtype-only", "v2 loader has no setdefault statement + subscript store"))
    # --- R3
    if isinstance(store, ast.Assign):
        keys = _objects_store(store)
        seg = ast.get_source_segment(src, store.targets[0])
        add("c18-store-keys-swapped", "C18.R3", store.targets[0], f"{unparse(_sub_chain(store.targets[0])[0])}[\"objects\"][{unparse(keys[1])}][{unparse(keys[0])}][{unparse(keys[2])}]", "_load_v2")
    ts = A.to_sphinx
    js = find_node(ts, lambda n: isinstance(n, ast.JoinedStr) and len([v for v in n.values if isinstance(v, ast.FormattedValue)]) == 2)
    if js is not None:
        fv = [v for v in js.values if isinstance(v, ast.FormattedValue)]
        add("c18-to-sphinx-key-reversed", "C18.R3", js, f'f"{{{unparse(fv[1].value)}}}:{{{unparse(fv[0].value)}}}"', "to_sphinx")
        add("c18-to-sphinx-separator-changed", "C18.R3", js, f'f"{{{unparse(fv[0].value)}}}.{{{unparse(fv[1].value)}}}"', "to_sphinx")
    fst = find_node(fs, lambda n: _objects_store_any(n))
    if fst is not None:
        base, keys = _sub_chain(fst.targets[0])
        add("c18-from-sphinx-keys-swapped", "C18.R3", fst.targets[0], f"{unparse(base)}[{unparse(keys[1])}][{unparse(keys[0])}][{unparse(keys[2])}]", "from_sphinx")
    # F15 reverted (only computable once the defect is repaired on the tree)
    if pm_if is not None:
        base = None
        for n in v2.local_nodes():
            if isinstance(n, (ast.Assign, ast.AnnAssign)) and isinstance(n.value, ast.Dict) and _dict_value(n.value, "objects") is not None:
                base = unparse(n.targets[0] if isinstance(n, ast.Assign) else n.target)
        t, nm = R["type"], R["name"]
        defective = f'{t} == "py:module" and {t} in {base}["objects"] and {nm} in {base}["objects"][{t}]'
        if unparse(ast.parse(defective, mode="eval").body) == unparse(pm_if.test):
            out.append(("c18-f15-py-module-unsplit-key-reverted", "F15 is not repaired on this tree (the defective test is the current code)"))
        else:
            add("c18-f15-py-module-unsplit-key-reverted", "C18.R3", pm_if.test, defective, "used as DOMAIN key")
    # --- R4
    rd = A.reader
    rb = rd.methods.get("read_buffer")
    rcl = rd.methods.get("read_compressed_lines")
    rcc = rd.methods.get("read_compressed_chunks")
    rl = rd.methods.get("readline")
    if rcl is not None:
        ind = " " * rcl.node.body[0].col_offset
        gens = _chunk_generators(_reader(corpus))
        gcall = find_node(rcl, lambda n: isinstance(n, ast.Call) and isinstance(n.func, ast.Attribute) and n.func.attr in gens)
        join = find_node(rcl, lambda n: isinstance(n, ast.Assign) and isinstance(n.value, ast.Call) and isinstance(n.value.func, ast.Attribute) and n.value.func.attr == "join")
        dec = find_node(rcl, lambda n: isinstance(n, ast.Call) and isinstance(n.func, ast.Attribute) and n.func.attr == "decode")
        ylines = find_node(rcl, lambda n: isinstance(n, ast.Expr) and isinstance(n.value, (ast.Yield, ast.YieldFrom)))
        if join is not None and gcall is not None and dec is not None and ylines is not None and isinstance(dec.func.value, ast.Name):
            g = unparse(gcall)
            var = dec.func.value.id
            old_loop = (
                f'buf = b""\n{ind}for chunk in {g}:\n{ind}    buf += chunk\n{ind}    pos = buf.find(b"\\n")\n'
                f'{ind}    while pos != -1:\n{ind}        yield buf[:pos].decode()\n{ind}        buf = buf[pos + 1 :]\n{ind}        pos = buf.find(b"\\n")'
            )
            # 407f3b2 reverted (F21 + line boundaries): the find/slice loop without a flush of the tail
            add2("c18-f21-tail-flush-reverted", "C18.R4", [(join, old_loop), (ylines, "pass")], "unconsumed tail at exit", canary=True)
            add2("c18-v2-lines-cut-at-newline-only-reverted", "C18.R5", [(join, old_loop), (ylines, "pass")], "v2 entry line boundaries")
            # class "decode applied to an arbitrary byte chunk"
            add2("c18-decode-per-chunk-then-join", "C18.R4", [(join.value, f'"".join(c.decode() for c in {g})'), (dec, var)], "decode|c")
            add2("c18-decode-and-split-per-chunk", "C18.R4", [(join, f"for chunk in {g}:\n{ind}    yield from chunk.decode().splitlines()"), (ylines, "pass")], "decode|chunk")
            # class "near-synonym line splitter with a smaller boundary set"
            add("c18-v2-bytes-splitlines-then-decode", "C18.R5", ylines, f"for line in {var}.splitlines():\n{ind}    yield line.decode()", "v2 entry line boundaries")
            # class "carry-over cut from the wrong operand / at the wrong place"
            per_chunk = (
                f'pending = b""\n{ind}for chunk in {g}:\n{ind}    data = pending + chunk\n{ind}    pos = data.rfind(b"\\n")\n'
                f"{ind}    if pos == -1:\n{ind}        pending = data\n{ind}        continue\n"
                f"{ind}    yield from data[:pos].decode().splitlines()\n{ind}    pending = %s\n{ind}yield from pending.decode().splitlines()"
            )
            add2("c18-per-chunk-lines-carry-cut-from-chunk", "C18.R4", [(join, per_chunk % "chunk[pos + 1 :]"), (ylines, "pass")], "replaces pending")
            add2("c18-per-chunk-lines-carry-keeps-separator", "C18.R4", [(join, per_chunk % "data[pos:]"), (ylines, "pass")], "pending = data[pos:]")
            add2("c18-line-buffer-decoded-while-filling", "C18.R4", [(join, f'{var} = b""\n{ind}for chunk in {g}:\n{ind}    {var} += chunk\n{ind}    if len({var}) > _BUFSIZE:\n{ind}        yield from {var}.decode().splitlines()\n{ind}        {var} = b""')], "still being appended")
        else:
            out.append(("c18-f21-tail-flush-reverted", "read_compressed_lines no longer joins and decodes the chunks once"))
    rls = rd.methods.get("readlines")
    if rls is not None:
        yf = find_node(rls, lambda n: isinstance(n, ast.YieldFrom) and isinstance(n.value, ast.Call) and isinstance(n.value.func, ast.Attribute) and n.value.func.attr == "splitlines")
        add("c18-v1-lines-cut-at-newline-only-reverted", "C18.R5", yf, f"yield {unparse(yf.value.func.value)}" if yf is not None else "", "v1 entry line boundaries")
    # class "end of input decided by the value of a line"
    if rls is not None:
        wl = find_node(rls, lambda n: isinstance(n, ast.While))
        M_ = _reader(corpus)
        if wl is not None:
            ind_ = " " * wl.col_offset
            add("c18-readlines-iter-sentinel", "C18.R4", wl, f'for line in iter(self.readline, ""):\n{ind_}    yield from line.splitlines()', "ends on an empty line")
            add("c18-readlines-break-on-empty-line", "C18.R4", wl, f"while True:\n{ind_}    line = self.readline()\n{ind_}    if not line:\n{ind_}        break\n{ind_}    yield from line.splitlines()", "ends on an empty line")
            add("c18-readlines-walrus-until-empty", "C18.R4", wl, f"while line := self.readline():\n{ind_}    yield from line.splitlines()", "ends on an empty line")
        else:
            out.append(("c18-readlines-iter-sentinel", "readlines has no while loop"))
    # class "bounded decompression drops the unprocessed input"
    if rcc is not None:
        dc = find_node(rcc, lambda n: isinstance(n, ast.Call) and isinstance(n.func, ast.Attribute) and n.func.attr == "decompress" and len(n.args) == 1 and not n.keywords)
        if dc is not None:
            a0 = ast.get_source_segment(src, dc.args[0])
            add("c18-decompress-max-length-tail-dropped", "C18.R4", dc, f"{unparse(dc.func)}({a0}, 16 * _BUFSIZE)", "input not processed")
            add("c18-decompress-max-length-kw-tail-dropped", "C18.R4", dc, f"{unparse(dc.func)}({a0}, max_length=65536)", "input not processed")
        else:
            out.append(("c18-decompress-max-length-tail-dropped", "no plain decompress(data) call"))
    # class "search offset cached across a change of the buffer's front"
    init = rd.methods.get("__init__")
    if rl is not None and init is not None:
        M_ = _reader(corpus)
        B_ = M_.B
        fcall = find_node(rl, lambda n: isinstance(n, ast.Call) and isinstance(n.func, ast.Attribute) and n.func.attr == "find" and unparse(n.func.value) == B_ and len(n.args) == 1)
        rbcall = find_node(rl, lambda n: isinstance(n, ast.Expr) and isinstance(n.value, ast.Call) and isinstance(n.value.func, ast.Attribute) and _is_name(n.value.func.value, "self") and "append" in M_.summ.get(n.value.func.attr, set()) and n.value.func.attr != rl.name)
        reset = find_node(rl, lambda n: isinstance(n, ast.Assign) and unparse(n.targets[0]) == B_ and _empty_bytes(n.value))
        drop = find_node(rl, lambda n: isinstance(n, ast.Assign) and unparse(n.targets[0]) == B_ and isinstance(n.value, ast.Subscript))
        last_init = init.node.body[-1]
        if None not in (fcall, rbcall, reset, drop):
            def seg(n):
                return ast.get_source_segment(src, n)

            def ind(n):
                return " " * n.col_offset

            common = [
                (last_init, f"{seg(last_init)}\n{ind(last_init)}self._scanned = 0"),
                (fcall, f"{unparse(fcall.func)}({seg(fcall.args[0])}, self._scanned)"),
                (reset, f"{seg(reset)}\n{ind(reset)}self._scanned = 0"),
            ]
            add2("c18-search-offset-not-reset-after-cut", "C18.R4", common + [(rbcall, f"self._scanned = len({B_})\n{ind(rbcall)}{seg(rbcall)}")], "zero after the buffer is cut")
            add2("c18-search-offset-never-reset", "C18.R4", common[:2] + [(rbcall, f"self._scanned = len({B_})\n{ind(rbcall)}{seg(rbcall)}")], "zero after the buffer is cut")
            add2("c18-search-offset-advanced-after-read", "C18.R4", common + [(drop, f"{seg(drop)}\n{ind(drop)}self._scanned = 0"), (rbcall, f"{seg(rbcall)}\n{ind(rbcall)}self._scanned = len({B_})")], "bytes were appended after the search")
        else:
            out.append(("c18-search-offset-not-reset-after-cut", "readline no longer has the find / read / reset / drop statements"))
    # class "decision on the bytes that happen to be buffered"
    M_ = _reader(corpus)
    battr = M_.B.split(".", 1)[1]
    ctor = find_node(A.load, lambda n: isinstance(n, ast.Assign) and isinstance(n.value, ast.Call) and corpus.find_class(inv.resolve(dotted(n.value.func) or "")) is not None)
    if ctor is not None and isinstance(ctor.targets[0], ast.Name):
        rn, i_ = ctor.targets[0].id, " " * ctor.col_offset
        add("c18-header-sniff-on-first-read", "C18.R4", ctor, f'{ast.get_source_segment(src, ctor)}\n{i_}{rn}.read_buffer()\n{i_}if not {rn}.{battr}.startswith(b"# Sphinx inventory version"):\n{i_}    raise ValueError("invalid inventory header")', "decision on the buffer content")
    else:
        out.append(("c18-header-sniff-on-first-read", "reader construction in load() not found"))
    zl = find_node(v2, lambda n: isinstance(n, ast.If) and any(_cstr(x) == "zlib" for x in ast.walk(n.test) if isinstance(x, (ast.Constant, ast.Name))))
    if zl is not None and v2.params:
        i_ = " " * zl.col_offset
        add("c18-zlib-magic-sniff-on-buffer", "C18.R4", zl, f'{ast.get_source_segment(src, zl)}\n{i_}if {v2.params[0]}.{battr}[:1] not in (b"", b"x"):\n{i_}    raise ValueError("inventory body is not zlib data")', "decision on the buffer content")
    if rl is not None:
        rbx = find_node(rl, lambda n: isinstance(n, ast.Expr) and isinstance(n.value, ast.Call) and isinstance(n.value.func, ast.Attribute) and _is_name(n.value.func.value, "self") and "append" in M_.summ.get(n.value.func.attr, set()) and n.value.func.attr != rl.name)
        if rbx is not None:
            i_ = " " * rbx.col_offset
            add("c18-line-length-guard-on-buffer", "C18.R4", rbx, f'if len({M_.B}) > 4 * _BUFSIZE:\n{i_}    raise ValueError("line too long")\n{i_}{ast.get_source_segment(src, rbx)}', "decision on the buffer content")
    # class "v1 branch taken on a derived instead of the raw field"
    v1if = find_node(v1, lambda n: isinstance(n, ast.If) and _eq_const(n.test) is not None and _eq_const(n.test)[1] == "mod")
    if v1if is not None and isinstance(_eq_const(v1if.test)[0], ast.Name) and len(v1if.body) == 2 and len(v1if.orelse) == 1:
        tvn = _eq_const(v1if.test)[0].id
        i_ = " " * v1if.col_offset
        add("c18-v1-anchor-from-translated-type", "C18.R5", v1if, f'{tvn} = {{"mod": "module"}}.get({tvn}, {tvn})\n{i_}if {tvn} == "module":\n{i_}    {ast.get_source_segment(src, v1if.body[1])}\n{i_}else:\n{i_}    {ast.get_source_segment(src, v1if.orelse[0])}', "ITEMTYPE == 'module'")
        add("c18-v1-module-spelling-also-renamed", "C18.R5", v1if.test, f'{tvn} in ("mod", "module")', "ITEMTYPE == 'module'")
    else:
        out.append(("c18-v1-anchor-from-translated-type", "v1 `if objtype == \"mod\"` with two/one statements not found"))
    # class "position found in one byte string used to cut another"
    if rl is not None and rb is not None:
        M_ = _reader(corpus)
        wl_ = find_node(rl, lambda n: isinstance(n, ast.While) and any(isinstance(x, ast.NamedExpr) for x in ast.walk(n.test)))
        rd_ = find_node(rb, lambda n: isinstance(n, ast.Assign) and isinstance(n.value, ast.Call) and isinstance(n.value.func, ast.Attribute) and n.value.func.attr == "read")
        if wl_ is not None and rd_ is not None and isinstance(rd_.targets[0], ast.Name):
            ne_ = [x for x in ast.walk(wl_.test) if isinstance(x, ast.NamedExpr)][0]
            pv_, fc_ = ne_.target.id, ne_.value
            sep_ = ast.get_source_segment(src, fc_.args[0])
            i_ = " " * wl_.col_offset
            last_rb = rb.node.body[-1]
            add2("c18-line-end-searched-in-new-chunk-only", "C18.R4", [
                (last_rb, f"{ast.get_source_segment(src, last_rb)}\n{' ' * last_rb.col_offset}return {rd_.targets[0].id}"),
                (wl_, f"{pv_} = {M_.B}.find({sep_})\n{i_}while {pv_} == -1 and not {M_.E}:\n{i_}    {pv_} = self.{rb.name}().find({sep_})"),
            ], "a position in")
        else:
            out.append(("c18-line-end-searched-in-new-chunk-only", "readline has no `while (pos := buffer.find(sep)) ...` loop"))
    # class "buffer taken (and cleared) before the stream is drained"
    if rls is not None:
        mv = find_node(rls, lambda n: isinstance(n, ast.Assign) and isinstance(n.targets[0], ast.Tuple) and isinstance(n.value, ast.Tuple))
        dr = find_node(rls, lambda n: isinstance(n, ast.While))
        if mv is not None and dr is not None and dr.lineno < mv.lineno:
            add2("c18-readlines-takes-buffer-before-draining", "C18.R4", [(dr, ast.get_source_segment(src, mv)), (mv, ast.get_source_segment(src, dr))], "is not known to be set")
            M_ = _reader(corpus)
            add("c18-readlines-drains-one-read-only", "C18.R4", dr, f"if not {M_.E}:\n{' ' * dr.col_offset}    {ast.get_source_segment(src, dr.body[0])}", "is not known to be set")
        else:
            out.append(("c18-readlines-takes-buffer-before-draining", "readlines no longer drains the stream and then moves the buffer out"))
    # class "file syntax resolved a second time in a conversion"
    locdef = find_node(ts, lambda n: isinstance(n, ast.Assign) and len(n.targets) == 1 and isinstance(n.targets[0], ast.Name) and isinstance(n.value, ast.Subscript) and _cstr(n.value.slice) == "loc")
    tloop = _enclosing_for(locdef) if locdef is not None else None
    if locdef is not None and tloop is not None and isinstance(tloop.target, ast.Tuple) and isinstance(tloop.target.elts[0], ast.Name):
        lv_, nm_, i_ = locdef.targets[0].id, tloop.target.elts[0].id, " " * locdef.col_offset
        seg_ = ast.get_source_segment(src, locdef)
        add("c18-to-sphinx-expands-dollar-again", "C18.R5", locdef, f'{seg_}\n{i_}if {lv_}.endswith("$"):\n{i_}    {lv_} = {lv_}[:-1] + {nm_}', "carried over verbatim")
        add("c18-to-sphinx-strips-trailing-dollar", "C18.R5", locdef.value, f'{ast.get_source_segment(src, locdef.value)}.rstrip("$")', "carried over verbatim")
    else:
        out.append(("c18-to-sphinx-expands-dollar-again", "to_sphinx does not bind item['loc'] to a local inside its name loop"))
    fst3 = find_node(fs, lambda n: isinstance(n, ast.stmt) and _objects_store_any(n))
    fit3 = _item_dict(fs, _entry_store(fst3, rooted=False)[1]) if fst3 is not None else None
    fl3 = _dict_value(fit3, "loc") if fit3 is not None else None
    if isinstance(fl3, ast.Name):
        nm3 = unparse(_entry_store(fst3, rooted=False)[0][-1])
        add("c18-from-sphinx-reabbreviates-location", "C18.R5", fl3, f'({fl3.id}[: -len({nm3})] + "$" if {fl3.id}.endswith({nm3}) else {fl3.id})', "carried over verbatim")
    else:
        out.append(("c18-from-sphinx-reabbreviates-location", "from_sphinx does not store a local as the item's loc"))
    # 7b1698e (round 14): blank lines are kept by readlines, header lines are positional
    if rls is not None:
        yf2 = find_node(rls, lambda n: isinstance(n, ast.Expr) and isinstance(n.value, ast.YieldFrom) and isinstance(n.value.value, ast.Call) and isinstance(n.value.value.func, ast.Attribute) and n.value.value.func.attr == "splitlines")
        if yf2 is not None:
            i_ = " " * yf2.col_offset
            sl_ = ast.get_source_segment(src, yf2.value.value)
            add("c18-readlines-drops-blank-lines-reverted", "C18.R5", yf2, f"for line in {sl_}:\n{i_}    if line:\n{i_}        yield line", "taken by position")
            add("c18-readlines-drops-whitespace-only-lines", "C18.R5", yf2, f"yield from (line for line in {sl_} if line.strip())", "taken by position")
        else:
            out.append(("c18-readlines-drops-blank-lines-reverted", "readlines no longer yields from a splitlines() call"))
    nx2 = [n for n in v1.local_nodes() if isinstance(n, ast.Call) and isinstance(n.func, ast.Name) and n.func.id == "next" and n.args and isinstance(n.args[0], ast.Name)]
    if nx2:
        add("c18-v1-header-skips-blank-lines", "C18.R5", nx2[-1], f'next((l for l in {nx2[-1].args[0].id} if l), "")', "taken by position")
    else:
        out.append(("c18-v1-header-skips-blank-lines", "the v1 loader does not take its header lines with next()"))
    # the refactored shapes of round 13, each with the defect the rule must still see
    if rl is not None and rb is not None:
        M_ = _reader(corpus)
        wl2 = find_node(rl, lambda n: isinstance(n, ast.While) and any(isinstance(x, ast.NamedExpr) for x in ast.walk(n.test)))
        if wl2 is not None and len(wl2.body) == 1:
            ne2 = [x for x in ast.walk(wl2.test) if isinstance(x, ast.NamedExpr)][0]
            i2 = " " * wl2.col_offset
            sep2 = ast.get_source_segment(src, ne2.value.args[0])
            add("c18-local-search-offset-advanced-after-read", "C18.R4", wl2, f"searched = 0\n{i2}while ({ne2.target.id} := {M_.B}.find({sep2}, searched)) == -1 and not {M_.E}:\n{i2}    {ast.get_source_segment(src, wl2.body[0])}\n{i2}    searched = len({M_.B})", "bytes were appended after the search")
        else:
            out.append(("c18-local-search-offset-advanced-after-read", "readline has no walrus search loop with a one-statement body"))
    bif2 = find_node(ts, lambda n: isinstance(n, ast.If) and any(isinstance(c, ast.Call) and ts.module.resolve(dotted(c.func) or "") in IDENTITY_CALLS for b_ in n.body for c in ast.walk(b_)))
    if bif2 is not None and isinstance(bif2.body[0], ast.Assign) and isinstance(bif2.body[0].targets[0], ast.Name):
        lv = bif2.body[0].targets[0].id
        last_top2 = inv.tree.body[-1]
        add2("c18-location-helper-ignores-base-url", "C18.R5", [
            (bif2, f"{lv} = _c18_resolve_location({unparse(bif2.test)}, {lv})"),
            (last_top2, ast.get_source_segment(src, last_top2) + "\n\n\ndef _c18_resolve_location(base_url, loc):\n    return loc if base_url else loc\n"),
        ], "location includes the base url")
    else:
        out.append(("c18-location-helper-ignores-base-url", "to_sphinx has no `if base_url: loc = join(...)` block"))
    if colon_if is not None and isinstance(spa, ast.Assign) and isinstance(spa.targets[0], ast.Tuple) and len(spa.targets[0].elts) == 2:
        d2_, o2_ = (unparse(e) for e in spa.targets[0].elts)
        add2("c18-rpartition-with-tested-separator", "C18.R2", [(colon_if, f"{d2_}, colon, {o2_} = {R['type']}.rpartition(\":\")\n{' ' * colon_if.col_offset}if not colon:\n{' ' * colon_if.col_offset}    continue"), (spa, "pass")], "LAST ':'")
    # --- reverts of the round-10 repairs
    # 24b7429: the decompressor's eof is tested after the final flush
    if rcc is not None:
        eofif = find_node(rcc, lambda n: isinstance(n, ast.If) and any(isinstance(x, ast.Attribute) and x.attr == "eof" and not _is_name(x.value, "self") for x in ast.walk(n.test)))
        add("c18-truncated-zlib-stream-check-reverted", "C18.R4", eofif, "pass", "truncated stream rejected")
    # 0999667: readline reads in a loop instead of recursing once per read
    if rl is not None:
        M_ = _reader(corpus)
        i_ = " " * rl.node.body[0].col_offset
        body_first, body_last = rl.node.body[0], rl.node.body[-1]
        old_readline = (
            f'pos = {M_.B}.find(b"\\n")\n{i_}if pos != -1:\n{i_}    line = {M_.B}[:pos].decode()\n{i_}    {M_.B} = {M_.B}[pos + 1 :]\n'
            f'{i_}elif {M_.E}:\n{i_}    line = {M_.B}.decode()\n{i_}    {M_.B} = b""\n{i_}else:\n{i_}    self.read_buffer()\n{i_}    line = self.{rl.name}()\n{i_}return line'
        )
        edits_ = [(body_first, old_readline)] + [(st_, "pass") for st_ in rl.node.body[1:]]
        add2("c18-readline-recursion-per-read-reverted", "C18.R4", edits_, "no recursion per read")
    # 2201503: the v1 header lines come from the same line iterator as the entries
    nx = [n for n in v1.local_nodes() if isinstance(n, ast.Call) and isinstance(n.func, ast.Name) and n.func.id == "next"]
    if nx and v1.params:
        add2("c18-v1-header-cut-at-linefeed-only-reverted", "C18.R5", [(n, f"{v1.params[0]}.readline()") for n in nx], "line boundaries")
    else:
        out.append(("c18-v1-header-cut-at-linefeed-only-reverted", "the v1 loader no longer takes its header lines with next()"))
    # the same defect spelled through a helper that is handed the line source as a callable
    hdr_assigns = [st_ for st_ in v1.node.body if isinstance(st_, ast.Assign) and len(st_.targets) == 1 and isinstance(st_.targets[0], ast.Name) and any(isinstance(n, ast.Call) and isinstance(n.func, ast.Name) and n.func.id == "next" for n in ast.walk(st_.value))]
    last_top = inv.tree.body[-1]
    if len(hdr_assigns) == 2 and v1.params:
        a_, b_ = hdr_assigns
        add2("c18-v1-header-via-callable-readline", "C18.R5", [
            (a_, f"{a_.targets[0].id}, {b_.targets[0].id} = _c18_header_lines({v1.params[0]}.readline)"),
            (b_, "pass"),
            (last_top, ast.get_source_segment(src, last_top) + "\n\n\ndef _c18_header_lines(readline):\n    return readline().rstrip()[11:], readline().rstrip()[11:]\n"),
        ], "line boundaries")
    else:
        out.append(("c18-v1-header-via-callable-readline", "the v1 loader does not bind its two header lines with next()"))
    # c9a6adf: to_sphinx joins the base url to the location
    bif = find_node(ts, lambda n: isinstance(n, ast.If) and any(isinstance(c, ast.Call) and ts.module.resolve(dotted(c.func) or "") in IDENTITY_CALLS for b_ in n.body for c in ast.walk(b_)))
    add("c18-to-sphinx-base-url-ignored-reverted", "C18.R5", bif, "pass", "location includes the base url")
    # 634b746: to_sphinx builds the item type the installed Sphinx stores
    si = inv.functions.get("_sphinx_item")
    ctor_ret = find_node(si, lambda n: isinstance(n, ast.Return) and isinstance(n.value, ast.Call) and kwarg(n.value, "uri") is not None) if si is not None else None
    if ctor_ret is not None:
        kw_ = {k.arg: unparse(k.value) for k in ctor_ret.value.keywords}
        add("c18-to-sphinx-tuple-items-only-reverted", "C18.R5", ctor_ret, f"return ({kw_.get('project_name')}, {kw_.get('project_version')}, {kw_.get('uri')}, {kw_.get('display_name')})", "item type equals")
    else:
        out.append(("c18-to-sphinx-tuple-items-only-reverted", "no helper returning the Sphinx item class"))
    # class "v1 location cut at its first blank"
    try:
        un1 = _v1_unpack(v1)
    except Unsupported:
        un1 = None
    if un1 is not None and isinstance(un1.value, ast.Call):
        recv = ast.get_source_segment(src, un1.value.func.value)
        tg1 = ast.get_source_segment(src, un1.targets[0])
        ind1_ = " " * un1.col_offset
        add("c18-v1-location-first-word", "C18.R5", un1.value, f"{recv}.split()[:3]", "v1 entry split")
        add("c18-v1-fields-var-first-three", "C18.R5", un1, f"fields = {recv}.split()\n{ind1_}if len(fields) < 3:\n{ind1_}    continue\n{ind1_}{tg1} = fields[:3]", "v1 entry split")
        add("c18-v1-split-not-stripped", "C18.R5", un1.value, f"{unparse(_method_chain(un1.value)[0])}.split(None, 2)", "v1 entry split")
    else:
        out.append(("c18-v1-location-first-word", "v1 fields are not unpacked directly from a split call"))
    if rl is not None:
        E_, B_ = _reader(corpus).E, _reader(corpus).B
        eof_t = find_node(rl, lambda n: isinstance(n, ast.If) and unparse(n.test) == E_)
        eof_w = find_node(rl, lambda n: isinstance(n, ast.While) and any(unparse(x) == E_ for x in ast.walk(n.test)))
        if eof_t is not None:  # if/elif form: the eof branch also taken for a long buffer
            add("c18-readline-decodes-partial-buffer", "C18.R4", eof_t.test, f"{E_} or len({B_}) >= _BUFSIZE", "is not known to be set")
        elif eof_w is not None:  # loop form: reading stops early for a long buffer
            add("c18-readline-decodes-partial-buffer", "C18.R4", eof_w.test, f"({ast.get_source_segment(src, eof_w.test)}) and len({B_}) < _BUFSIZE", "is not known to be set")
        else:
            out.append(("c18-readline-decodes-partial-buffer", "readline has neither an eof branch nor an eof loop"))
    if rcc is not None:
        rs = find_node(rcc, lambda n: isinstance(n, ast.Assign) and _empty_bytes(n.value))
        add("c18-chunk-buffer-not-cleared", "C18.R4", rs, "pass", "processed twice")
    if rl is not None:
        rs = find_node(rl, lambda n: isinstance(n, ast.Assign) and _empty_bytes(n.value))
        add("c18-readline-eof-buffer-not-cleared", "C18.R4", rs, "pass", "processed twice")
        dr = find_node(rl, lambda n: isinstance(n, ast.Assign) and isinstance(n.value, ast.Subscript) and isinstance(n.value.slice, ast.Slice) and n.value.slice.upper is None)
        add("c18-readline-rest-dropped", "C18.R4", dr.value if dr else None, 'b""', "not consumed")
    if rb is not None:
        eof_if = find_node(rb, lambda n: isinstance(n, ast.If))
        add("c18-short-read-taken-for-eof", "C18.R4", eof_if.test if eof_if else None, "len(chunk) < _BUFSIZE", "short read", canary=True)
        M_ = _reader(corpus)
        add("c18-eof-assigned-from-short-read", "C18.R4", eof_if, f"{M_.E} = len(chunk) < _BUFSIZE", "is computed as")
        rdcall = find_node(rb, lambda n: isinstance(n, ast.Assign) and isinstance(n.value, ast.Call) and isinstance(n.value.func, ast.Attribute) and n.value.func.attr == "read")
        if rdcall is not None and eof_if is not None:
            cv = rdcall.targets[0].id
            add("c18-eof-when-buffer-not-grown", "C18.R4", eof_if, f"{M_.E} = len({cv}) <= 1", "is computed as")
        ap = find_node(rb, lambda n: isinstance(n, ast.AugAssign))
        if ap is not None:
            add("c18-read-buffer-overwritten", "C18.R4", ap, f"{unparse(ap.target)} = {unparse(ap.value)}", "replaces")
    # --- R5
    def const_in(fi, value):
        return find_node(fi, lambda n: isinstance(n, ast.Constant) and n.value == value)

    add("c18-v1-module-anchor-changed", "C18.R5", const_in(v1, "#module-"), '"#module_"', "ITEMTYPE == 'mod'")
    add("c18-v1-mod-not-renamed", "C18.R5", const_in(v1, "module"), '"mod"', "ITEMTYPE == 'mod'")
    add("c18-v1-domain-changed", "C18.R5", const_in(v1, "py"), '"python"', "v1 entry where")
    sl = find_node(v2, lambda n: isinstance(n, ast.Subscript) and isinstance(n.slice, ast.Slice) and isinstance(n.slice.lower, ast.Constant) and n.slice.lower.value == 11)
    add("c18-v2-project-offset-changed", "C18.R5", sl.slice.lower if sl else None, "10", "offsets")
    add("c18-zlib-marker-changed", "C18.R5", const_in(v2, "zlib"), '"gzip"', "substring tests")
    add("c18-py-module-constant-changed", "C18.R5", const_in(v2, "py:module"), '"py:mod"', "type equality")
    add("c18-header-constant-changed", "C18.R5", const_in(A.load, "# Sphinx inventory version 2"), '"# Sphinx inventory version 2.0"', "header constant")
    add("c18-to-sphinx-sentinel-changed", "C18.R5", const_in(ts, "-"), '""', "sentinel")
    ife = find_node(fs, lambda n: isinstance(n, ast.IfExp))
    if ife is not None:
        tv = sorted({n.id for n in ast.walk(ife.test) if isinstance(n, ast.Name)})
        tvar = [b.id for b in (ife.body, ife.orelse) if isinstance(b, ast.Name)][0]
        add("c18-from-sphinx-sentinel-not-mapped", "C18.R5", ife.test, f"not {tvar}", "display name sentinel")
        fst2 = find_node(fs, lambda n: isinstance(n, ast.stmt) and _objects_store_any(n))
        nm = unparse(_entry_store(fst2, rooted=False)[0][-1]) if fst2 is not None else None
        if nm is not None:
            add("c18-from-sphinx-text-equal-to-name-dropped", "C18.R5", ife.test, f"not {tvar} or {tvar} in (\"-\", {nm})", "equal to")
            add("c18-from-sphinx-text-equal-to-name-dropped-eq", "C18.R5", ife.test, f"not {tvar} or {tvar} == \"-\" or {tvar} == {nm}", "equal to")
    return out
